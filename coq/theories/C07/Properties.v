(* C07/Properties.v — hostile or malformed packets never crash or wedge the control plane.
   `is_crash r = false` means: r is neither Panic (Go would panic) nor OutOfFuel (the loop might not terminate).
   Every top-level parser runs its loops with fuel S (length input) (Model.v), so a theorem about the top-level
   definition carries the length-derived bound; the *_fuel theorems state the bound explicitly.
   Variants: Repaired = /repo HEAD (both recorded findings are fixed upstream: 7065ffb, 890d5a0); Defective = the code
   before those commits, kept only for the *_refuted and *_repair_conservative theorems.
   Sections: totality per entry point; RADIUS/CoA/IPoE/L2TP byte handling; hostile datagrams vs the RADIUS pending table;
   bounded worker pools; round trips; frame sequences; lock discipline of the session receive path.
   Each theorem is closed by [exact] of a lemma of Proofs.v / RoundTrip.v. *)
From OV Require Import Common.Base C07.Model C07.Proofs C07.RoundTrip.
Local Open Scope N_scope.

(* ---- every modelled entry point, any numeric arguments, any byte strings ---- *)
Theorem C07_all_entries_total :
  forall entry na ba, is_crash (run Repaired entry na ba) = false.
Proof. exact run_total. Qed.
Print Assumptions C07_all_entries_total.

(* ---- PPP dispatcher (internal/ppp/dispatcher.go HandleFrame) ---- *)
Theorem C07_dispatcher_total :
  forall cfg proto payload, is_crash (handle_frame Repaired cfg proto payload) = false.
Proof. exact handle_frame_total. Qed.
Print Assumptions C07_dispatcher_total.

(* historical witness (fixed in 7065ffb): the code before that commit panicked on LCP frame 01 01 00 00 (declared length 0) *)
Theorem C07_dispatcher_total_refuted :
  exists cfg proto payload, handle_frame Defective cfg proto payload = Panic.
Proof. exact handle_frame_refuted. Qed.
Print Assumptions C07_dispatcher_total_refuted.

(* the fix (7065ffb) changed nothing except turning exactly those panics into the length-mismatch error *)
Theorem C07_dispatcher_repair_conservative :
  forall cfg proto payload,
  handle_frame Defective cfg proto payload = handle_frame Repaired cfg proto payload \/
  (handle_frame Defective cfg proto payload = Panic /\ handle_frame Repaired cfg proto payload = Err 2).
Proof. exact handle_frame_repair_conservative. Qed.
Print Assumptions C07_dispatcher_repair_conservative.

(* ---- pkg/ppp ParsePAPPacket / ParseCHAPPacket / ParseIPv6CPPacket ---- *)
Theorem C07_ppp_packet_header_total : forall data, is_crash (ppp_hdr Repaired data) = false.
Proof. exact ppp_hdr_total. Qed.
Print Assumptions C07_ppp_packet_header_total.
Theorem C07_ppp_packet_header_total_refuted : exists data, ppp_hdr Defective data = Panic.
Proof. exact ppp_hdr_refuted. Qed.
Print Assumptions C07_ppp_packet_header_total_refuted.
Theorem C07_ppp_packet_header_repair_conservative :
  forall data, ppp_hdr Defective data = ppp_hdr Repaired data \/
  (ppp_hdr Defective data = Panic /\ ppp_hdr Repaired data = Err 1).
Proof. exact ppp_hdr_repair_conservative. Qed.
Print Assumptions C07_ppp_packet_header_repair_conservative.

(* ---- pkg/ppp option list, PAP / CHAP bodies (also the copies in internal/pppoe/session.go), echo ---- *)
Theorem C07_ppp_options_total : forall data, is_crash (ppp_parse_options data) = false.
Proof. exact ppp_parse_options_total. Qed.
Print Assumptions C07_ppp_options_total.
Theorem C07_ppp_options_total_fuel :
  forall fuel data, (length data < fuel)%nat -> is_crash (ppp_opts_loop fuel data) = false.
Proof. exact ppp_opts_loop_total. Qed.
Print Assumptions C07_ppp_options_total_fuel.
Theorem C07_pap_request_total : forall data, is_crash (pap_req data) = false.
Proof. exact pap_req_total. Qed.
Print Assumptions C07_pap_request_total.
Theorem C07_pap_message_total : forall data, is_crash (pap_msg data) = false.
Proof. exact pap_msg_total. Qed.
Print Assumptions C07_pap_message_total.
Theorem C07_chap_challenge_total : forall data, is_crash (chap_challenge data) = false.
Proof. exact chap_challenge_total. Qed.
Print Assumptions C07_chap_challenge_total.
Theorem C07_chap_response_total : forall data, is_crash (chap_response data) = false.
Proof. exact chap_response_total. Qed.
Print Assumptions C07_chap_response_total.
Theorem C07_echo_total : forall data, is_crash (echo_tail data) = false.
Proof. exact echo_tail_total. Qed.
Print Assumptions C07_echo_total.

(* ---- pkg/pppoe ParseTags incl. vendor-specific sub-options ---- *)
Theorem C07_pppoe_tags_total : forall payload, is_crash (parse_tags payload) = false.
Proof. exact parse_tags_total. Qed.
Print Assumptions C07_pppoe_tags_total.
Theorem C07_pppoe_tags_total_fuel :
  forall fuel off payload t, (N.to_nat (lenN payload - off) < fuel)%nat ->
  is_crash (tags_loop fuel off payload t) = false.
Proof. exact tags_loop_total. Qed.
Print Assumptions C07_pppoe_tags_total_fuel.

(* ---- pkg/l2tp header, AVP walk, v3 detection ---- *)
Theorem C07_l2tp_header_total : forall b, is_crash (l2tp_parse b) = false.
Proof. exact l2tp_parse_total. Qed.
Print Assumptions C07_l2tp_header_total.
Theorem C07_l2tp_avps_total : forall b, is_crash (parse_avps b) = false.
Proof. exact parse_avps_total. Qed.
Print Assumptions C07_l2tp_avps_total.
Theorem C07_l2tp_v3_detect_total : forall b, is_crash (is_l2tpv3 b) = false.
Proof. exact is_l2tpv3_total. Qed.
Print Assumptions C07_l2tp_v3_detect_total.

(* ---- pkg/dhcp6 ParseMessage / ParseOptions / parseIANA / parseIAPD / UnwrapRelay / UnwrapRelayReply ---- *)
Theorem C07_dhcp6_message_total : forall data, is_crash (parse_message6 data) = false.
Proof. exact parse_message6_total. Qed.
Print Assumptions C07_dhcp6_message_total.
Theorem C07_dhcp6_options_total : forall data, is_crash (parse_options6 data) = false.
Proof. exact parse_options6_total. Qed.
Print Assumptions C07_dhcp6_options_total.
Theorem C07_dhcp6_ia_total : forall pd data, is_crash (parse_ia pd data) = false.
Proof. exact parse_ia_total. Qed.
Print Assumptions C07_dhcp6_ia_total.
(* self-referential relay chains: the recursion depth is bounded by the message length *)
Theorem C07_dhcp6_unwrap_relay_total_fuel :
  forall fuel data, (length data < fuel)%nat -> is_crash (unwrap_relay fuel data) = false.
Proof. exact unwrap_relay_total. Qed.
Print Assumptions C07_dhcp6_unwrap_relay_total_fuel.
Theorem C07_dhcp6_unwrap_relay_reply_total_fuel :
  forall fuel data, (length data < fuel)%nat -> is_crash (unwrap_relay_reply fuel data) = false.
Proof. exact unwrap_relay_reply_total. Qed.
Print Assumptions C07_dhcp6_unwrap_relay_reply_total_fuel.
(* every nested relay message is strictly shorter than the one that carries it *)
Theorem C07_dhcp6_relay_nesting_shrinks :
  forall fuel off data inner, find_relay_msg fuel off data = Ok (Some inner) -> 4 <= off ->
  lenN inner < lenN data.
Proof. exact find_relay_msg_shorter. Qed.
Print Assumptions C07_dhcp6_relay_nesting_shrinks.

(* ---- pkg/dhcp/relay: v6 relay unwrap, option 82 insert/strip, option rewrite ---- *)
Theorem C07_relay_v6_unwrap_total : forall pkt, is_crash (relay_unwrap_reply pkt) = false.
Proof. exact relay_unwrap_reply_total. Qed.
Print Assumptions C07_relay_v6_unwrap_total.
Theorem C07_relay_v6_txid_total : forall pkt, is_crash (relay_txid pkt) = false.
Proof. exact relay_txid_total. Qed.
Print Assumptions C07_relay_v6_txid_total.
Theorem C07_relay_insert_option82_total :
  forall pkt opt82 policy, is_crash (insert_option82 pkt opt82 policy) = false.
Proof. exact insert_option82_total. Qed.
Print Assumptions C07_relay_insert_option82_total.
(* every option-82 range the walk records lies inside the packet InsertOption82 works on (the packet cut at a trailing
   fragment, since 703d203), they do not overlap, and their total size is at most the End offset, which is inside that packet:
   `endIdx -= r[1]-r[0]` cannot go negative and removeRanges never slices out of range *)
Theorem C07_relay_option82_ranges_inside :
  forall pkt r, o82_scan (S (length pkt)) 240 pkt [] = Ok r -> 240 <= lenN pkt ->
  cut_len pkt (fst r) <= lenN pkt /\
  ranges_ok (cut_len pkt (fst r)) (snd r) /\
  ranges_total (snd r) <= end_off pkt (fst r) /\ end_off pkt (fst r) <= cut_len pkt (fst r).
Proof. exact o82_scan_ranges. Qed.
Print Assumptions C07_relay_option82_ranges_inside.
Theorem C07_relay_strip_option82_total : forall pkt, is_crash (strip_option82 pkt) = false.
Proof. exact strip_option82_total. Qed.
Print Assumptions C07_relay_strip_option82_total.
Theorem C07_relay_set_option_total : forall pkt code val, is_crash (set_option4 pkt code val) = false.
Proof. exact set_option4_total. Qed.
Print Assumptions C07_relay_set_option_total.
Theorem C07_relay_get_option_total : forall pkt code, is_crash (get_option4 pkt code) = false.
Proof. exact get_option4_total. Qed.
Print Assumptions C07_relay_get_option_total.

(* ---- DHCPv4: pkg/dhcp Parse, pkg/dhcp4 ParseMessage, option-82 sub-options (pkg/dhcp and internal/ipoe) ---- *)
Theorem C07_dhcp_parse_total : forall data, is_crash (dhcp_parse data) = false.
Proof. exact dhcp_parse_total. Qed.
Print Assumptions C07_dhcp_parse_total.
Theorem C07_dhcp4_message_total : forall data, is_crash (parse_message4 data) = false.
Proof. exact parse_message4_total. Qed.
Print Assumptions C07_dhcp4_message_total.
Theorem C07_option82_suboptions_total : forall data, is_crash (parse_sub82 data) = false.
Proof. exact parse_sub82_total. Qed.
Print Assumptions C07_option82_suboptions_total.

(* ---- RADIUS Message-Authenticator offset (transport.go findAttr80) and the 16-byte window its callers slice ---- *)
Theorem C07_radius_attr80_total : forall raw, is_crash (attr80_window raw) = false.
Proof. exact attr80_window_total. Qed.
Print Assumptions C07_radius_attr80_total.

(* ---- well-formed input parses to the values it was built from ---- *)
(* FSM.SerializeOptions then ParseOptions: every option list whose options fit the one-byte length *)
Theorem C07_ppp_options_roundtrip :
  forall opts, Forall wf_opt opts -> ppp_parse_options (ppp_serialize_options opts) = Ok opts.
Proof. exact ppp_options_roundtrip. Qed.
Print Assumptions C07_ppp_options_roundtrip.
Example C07_ppp_options_roundtrip_nonvacuous :
  Forall wf_opt [(1, [5; 220]); (5, [1; 2; 3; 4]); (3, [194; 35; 5])] /\
  ppp_serialize_options [(1, [5; 220]); (5, [1; 2; 3; 4]); (3, [194; 35; 5])] =
    [1; 4; 5; 220; 5; 6; 1; 2; 3; 4; 3; 5; 194; 35; 5].
Proof. exact ppp_options_roundtrip_nonvacuous. Qed.
Print Assumptions C07_ppp_options_roundtrip_nonvacuous.
(* PAPHandler.SendAuthReq then HandleAuthReq (and the session's copy) *)
Theorem C07_pap_roundtrip :
  forall u p, lenN u < 256 -> lenN p < 256 -> pap_req (pap_build u p) = Ok (Some (u, p)).
Proof. exact pap_roundtrip. Qed.
Print Assumptions C07_pap_roundtrip.
Example C07_pap_roundtrip_nonvacuous :
  lenN [117; 115; 101; 114] < 256 /\ lenN [112; 119] < 256 /\
  pap_build [117; 115; 101; 114] [112; 119] = [4; 117; 115; 101; 114; 2; 112; 119].
Proof. exact pap_roundtrip_nonvacuous. Qed.
Print Assumptions C07_pap_roundtrip_nonvacuous.
(* CHAP value-size | value | name framing (SendChallenge / the response a peer builds) *)
Theorem C07_chap_roundtrip :
  forall v n, lenN v < 256 -> chap_response (chap_build v n) = Ok (Some (v, n)).
Proof. exact chap_roundtrip. Qed.
Print Assumptions C07_chap_roundtrip.
(* the explicit-fuel form for the DHCPv4 option walk (one iteration per pad byte: the tightest loop) *)
Theorem C07_dhcp4_options_total_fuel :
  forall fuel data o, (length data < fuel)%nat -> is_crash (o4_loop fuel data o) = false.
Proof. exact o4_loop_total. Qed.
Print Assumptions C07_dhcp4_options_total_fuel.
(* the fuel hypotheses are satisfiable AND close to necessary: inputs that run out of fuel one or two units below the
   bound of the theorem, and the hypothesis of the nesting theorem instantiated on a real two-level relay chain *)
Example C07_fuel_nonvacuous :
  (length (repeat 0 7) < 8)%nat /\ o4_loop 7 (repeat 0 7) o4_0 = Ok o4_0 /\ o4_loop 6 (repeat 0 7) o4_0 = OutOfFuel /\
  ppp_opts_loop 4 [1; 2; 1; 2; 1; 2] = Ok [(1, []); (1, []); (1, [])] /\ ppp_opts_loop 3 [1; 2; 1; 2; 1; 2] = OutOfFuel /\
  (exists inner, find_relay_msg 2 34 ex_chain2 = Ok (Some inner) /\ lenN inner = 66 /\ lenN ex_chain2 = 109 /\ 4 <= 34) /\
  find_relay_msg 1 34 ex_chain2 = OutOfFuel /\
  unwrap_relay 1 ex_chain2 = OutOfFuel /\ is_crash (unwrap_relay 2 ex_chain2) = false /\ (length ex_chain2 < 110)%nat.
Proof. exact fuel_nonvacuous. Qed.
Print Assumptions C07_fuel_nonvacuous.

(* ---- hand-written byte handling around the third-party RADIUS parser (transport.go, coa.go) ---- *)
(* isAuthenticReply: for every datagram and every pair of digests, no slice is out of range *)
Theorem C07_radius_reply_auth_total : forall raw d_resp d_ma, is_crash (is_authentic_reply raw d_resp d_ma) = false.
Proof. exact is_authentic_reply_total. Qed.
Print Assumptions C07_radius_reply_auth_total.
Theorem C07_coa_request_auth_total : forall raw d, is_crash (validate_request_auth raw d) = false.
Proof. exact validate_request_auth_total. Qed.
Print Assumptions C07_coa_request_auth_total.
Theorem C07_coa_message_auth_total : forall raw d, is_crash (validate_message_auth raw d) = false.
Proof. exact validate_message_auth_total. Qed.
Print Assumptions C07_coa_message_auth_total.
(* the CoA read loop trims the datagram to its declared length *after* radius.Parse accepted it; the trim is safe under
   exactly what the third-party parser guarantees (declared length within the datagram) — that dependency is explicit *)
Theorem C07_coa_trim_total_given_parse :
  forall raw, 4 <= lenN raw -> (forall l, (s <- sl 2 4 raw;; u16at 0 s) = Ok l -> l <= lenN raw) ->
  is_crash (coa_trim raw) = false.
Proof. exact coa_trim_total. Qed.
Print Assumptions C07_coa_trim_total_given_parse.
Theorem C07_coa_trim_needs_parse : exists raw, coa_trim raw = Panic.
Proof. exact coa_trim_needs_parse. Qed.
Print Assumptions C07_coa_trim_needs_parse.
(* CoA attribute accessors over any attribute list (hasServiceType, getEventTimestamp read 4-byte values;
   resolveCoATarget, hasNonIdentificationAttrs, validateNASIdentifier are total functions by construction) *)
Theorem C07_coa_service_type_total : forall value l, is_crash (has_service_type value l) = false.
Proof. exact has_service_type_total. Qed.
Print Assumptions C07_coa_service_type_total.
Theorem C07_coa_event_timestamp_total : forall l, is_crash (event_timestamp l) = false.
Proof. exact event_timestamp_total. Qed.
Print Assumptions C07_coa_event_timestamp_total.
(* internal/ipoe/dhcpv4.go getDHCPMessageType over any decoded option list (getDHCPOption is a total search) *)
Theorem C07_ipoe_message_type_total : forall l, is_crash (ipoe_msg_type l) = false.
Proof. exact ipoe_msg_type_total. Qed.
Print Assumptions C07_ipoe_message_type_total.
(* internal/l2tp/ppp.go dispatchPPPFrame in front of the dispatcher *)
Theorem C07_l2tp_ppp_dispatch_total : forall cfg frame, is_crash (l2tp_dispatch_ppp Repaired cfg frame) = false.
Proof. exact l2tp_dispatch_ppp_total. Qed.
Print Assumptions C07_l2tp_ppp_dispatch_total.

(* ---- "malformed input is ... ignored": a hostile datagram from the RADIUS server's address must not consume the
   outstanding request (plugins/auth/radius/transport.go readLoop: parse, look up, verify with isAuthenticReply, and only then
   clear the slot).  D1, D2 are the MD5 / HMAC-MD5 computations (request authenticator -> datagram -> expected digest);
   [accepts] is the real acceptance predicate over the datagram's bytes. ---- *)
Theorem C07_radius_junk_datagrams_ignored :
  forall D1 D2 ds p, (forall raw, In raw ds -> accepts D1 D2 p raw = false) -> rad_run D1 D2 false p ds = (p, []).
Proof. exact rad_junk_ignored. Qed.
Print Assumptions C07_radius_junk_datagrams_ignored.
Theorem C07_radius_genuine_reply_survives_junk :
  forall D1 D2 junk g rest p, (forall raw, In raw junk -> accepts D1 D2 p raw = false) -> accepts D1 D2 p g = true ->
  exists os, snd (rad_run D1 D2 false p (junk ++ g :: rest)) = g :: os /\
             fst (rad_run D1 D2 false p (junk ++ [g])) = pdel (nth 1 g 0) p.
Proof. exact rad_genuine_after_junk. Qed.
Print Assumptions C07_radius_genuine_reply_survives_junk.
(* what acceptance means on the bytes: at least the declared length (>= 20) is present, bytes 4..20 of the declared part are the
   Response-Authenticator digest, and a Message-Authenticator attribute, when present, carries the HMAC digest *)
Theorem C07_radius_authentic_sound :
  forall raw d1 d2, authentic raw d1 d2 = true ->
  exists raw', sl 0 (rad_declared raw) raw = Ok raw' /\ 20 <= rad_declared raw /\ sl 4 20 raw' = Ok d1 /\
    (forall off, find_attr80 raw' = Ok (Some off) -> sl off (off + 16) raw' = Ok d2).
Proof. exact authentic_sound. Qed.
Print Assumptions C07_radius_authentic_sound.
(* clearing the slot before the verification (seeded C07_q3) loses the genuine reply; also the non-vacuity witness:
   a forged datagram that is rejected and an authentic one that is accepted *)
Theorem C07_radius_claim_before_verify_refuted :
  let D := fun (_ _ : bytes) => repeat 7 16 in
  rad_run D D true [(1, [])] [ex_forged; ex_genuine] = ([], []) /\
  rad_run D D false [(1, [])] [ex_forged; ex_genuine] = ([], [ex_genuine]) /\
  accepts D D [(1, [])] ex_forged = false /\ accepts D D [(1, [])] ex_genuine = true.
Proof. exact rad_claim_first_refuted. Qed.
Print Assumptions C07_radius_claim_before_verify_refuted.
(* the CoA trim is safe on every datagram the (reference transcription of the) third-party parser accepts; the transcription
   is compared with layeh radius.Parse by the `radparse` cases *)
Theorem C07_coa_trim_total_after_parse : forall raw, rad_parse_ok raw = true -> is_crash (coa_trim raw) = false.
Proof. exact coa_trim_total_after_parse. Qed.
Print Assumptions C07_coa_trim_total_after_parse.

(* ---- "never make a handler run without bound": bounded worker pools / hand-off queues on the receive path
   (pppoe dhcp6Sem under the session lock, pppoe raKicks, ipoe l2gwChan), acquired with a non-blocking select ---- *)
(* whatever the history of arrivals and worker completions, and for every pool size, no handler call blocks *)
Theorem C07_worker_pool_handler_never_blocks :
  forall cap evs s, ps_stuck s = false ->
  ps_stuck (fst (pool_run false cap s evs)) = false /\ ~ In Blocked (snd (pool_run false cap s evs)).
Proof. exact pool_never_blocks. Qed.
Print Assumptions C07_worker_pool_handler_never_blocks.
(* the pool bounds the number of concurrently running workers *)
Theorem C07_worker_pool_bounded :
  forall blocking cap evs s, ps_busy s <= cap -> ps_busy (fst (pool_run blocking cap s evs)) <= cap.
Proof. exact pool_bounded. Qed.
Print Assumptions C07_worker_pool_bounded.
(* n frames while all workers are held: all n calls return, min n cap are dispatched (the rest dropped),
   the session is not wedged, and the pool drains when the workers are released — for every n and cap *)
Theorem C07_worker_pool_burst :
  forall cap n, pool_burst cap n = [TN n; TN (N.min n cap); TN 1; TN 1].
Proof. exact pool_burst_spec. Qed.
Print Assumptions C07_worker_pool_burst.
(* the alternative "wait for a free worker instead of dropping" violates the property: 17 frames against 16 held
   workers leave a handler blocked under the session lock ... *)
Theorem C07_worker_pool_blocking_acquire_refuted :
  ps_stuck (fst (pool_run true 16 pool0 (repeat Arrive 17))) = true /\
  In Blocked (snd (pool_run true 16 pool0 (repeat Arrive 17))).
Proof. exact pool_blocking_wedges. Qed.
Print Assumptions C07_worker_pool_blocking_acquire_refuted.
(* ... and once that has happened every later handler call blocks and no worker ever finishes *)
Theorem C07_worker_pool_stuck_forever :
  forall blocking cap evs s, ps_stuck s = true ->
  fst (pool_run blocking cap s evs) = s /\ Forall (fun o => o = Blocked) (snd (pool_run blocking cap s evs)).
Proof. exact pool_stuck_forever. Qed.
Print Assumptions C07_worker_pool_stuck_forever.
Example C07_worker_pool_nonvacuous :
  ps_stuck pool0 = false /\ ps_busy pool0 <= 16 /\
  ps_stuck (fst (pool_run true 16 pool0 (repeat Arrive 17))) = true.
Proof. exact pool_nonvacuous. Qed.
Print Assumptions C07_worker_pool_nonvacuous.

(* ======================================================================================================
   "well-formed input parses to the same values it was built from" — builder models are in RoundTrip.v and are
   compared byte for byte with the Go builders by the bld* cases; wf_* are boolean predicates on the values. *)

(* ---- PPPoE: TagBuilder, then ParseTags = applying the tags in order; the raw list comes back unchanged ---- *)
Theorem C07_pppoe_tags_roundtrip :
  forall l, wf_tags l = true -> parse_tags (build_tags l) = tags_fold l tags0.
Proof. exact tags_roundtrip. Qed.
Print Assumptions C07_pppoe_tags_roundtrip.
Theorem C07_pppoe_tags_roundtrip_raw :
  forall l t, wf_tags l = true -> parse_tags (build_tags l) = Ok t -> t_raw t = l.
Proof. exact tags_roundtrip_raw. Qed.
Print Assumptions C07_pppoe_tags_roundtrip_raw.
(* vendor-specific value (BBF / Cisco): circuit-id and remote-id are the last sub-options 1 and 2 *)
Theorem C07_pppoe_vendor_roundtrip :
  forall vid l c r, vid = 3561 \/ vid = 9 -> wf_subs l = true ->
  parse_vendor (put32 vid ++ build_subs l) c r = Ok (vendor_fold l c r).
Proof. exact vendor_roundtrip. Qed.
Print Assumptions C07_pppoe_vendor_roundtrip.
Example C07_pppoe_tags_roundtrip_nonvacuous :
  wf_tags [(257, [105; 115; 112]); (259, [1; 2; 3; 4]); (261, put32 3561 ++ build_subs [(1, [97; 98]); (2, [99])]); (288, [5; 220])] = true /\
  (exists t, parse_tags (build_tags [(257, [105; 115; 112]); (259, [1; 2; 3; 4]);
                                      (261, put32 3561 ++ build_subs [(1, [97; 98]); (2, [99])]); (288, [5; 220])]) = Ok t /\
             t_service t = [105; 115; 112] /\ t_hostuniq t = Some [1; 2; 3; 4] /\ t_circuit t = [97; 98] /\
             t_remote t = [99] /\ t_maxpayload t = 1500).
Proof. exact tags_roundtrip_nonvacuous. Qed.
Print Assumptions C07_pppoe_tags_roundtrip_nonvacuous.

(* ---- L2TP: AppendAVP* then ParseAVPs (hidden bit off, any mandatory bit / vendor / type, values up to 1017 bytes,
        i.e. AVP lengths up to 1023) ---- *)
Theorem C07_l2tp_avps_roundtrip :
  forall l, wf_avps l = true -> parse_avps (build_avps l) = Ok l.
Proof. exact avps_roundtrip. Qed.
Print Assumptions C07_l2tp_avps_roundtrip.
Example C07_l2tp_avps_roundtrip_nonvacuous :
  wf_avps [mkAvp true false 0 0 [0; 1]; mkAvp false false 3561 65535 (repeat 7 1017)] = true /\
  lenN (build_avps [mkAvp true false 0 0 [0; 1]; mkAvp false false 3561 65535 (repeat 7 1017)]) = 1031.
Proof. exact avps_roundtrip_nonvacuous. Qed.
Print Assumptions C07_l2tp_avps_roundtrip_nonvacuous.
(* ---- L2TP header: AppendTo(nil, len body) ++ body, then Parse: all 32 combinations of T/L/S/O/P, any version 0..15 ---- *)
Theorem C07_l2tp_header_roundtrip :
  forall h body, wf_l2hdr h (lenN body) = true ->
  l2tp_parse (l2tp_append h (lenN body) ++ body) = Ok (l2_expected h (lenN body), body).
Proof. exact l2tp_roundtrip. Qed.
Print Assumptions C07_l2tp_header_roundtrip.
Example C07_l2tp_header_roundtrip_nonvacuous :
  wf_l2hdr (mkL2 true true true true false 2 0 7 9 65535 1 3 0) 5 = true /\
  wf_l2hdr (mkL2 false false false false true 2 0 7 9 0 0 0 0) 0 = true /\
  l2tp_append (mkL2 true true true true false 2 0 7 9 65535 1 3 0) 5 =
    [202; 2; 0; 22; 0; 7; 0; 9; 255; 255; 0; 1; 0; 3; 0; 0; 0].
Proof. exact l2tp_roundtrip_nonvacuous. Qed.
Print Assumptions C07_l2tp_header_roundtrip_nonvacuous.

(* ---- DHCPv6: any list of code/length/value options, IA_NA / IA_PD payloads, DNS list, a whole Response ---- *)
Theorem C07_dhcp6_options_roundtrip :
  forall l, wf_opts6 l = true -> parse_options6 (build_opts6 l) = opts6_fold l opts6_0.
Proof. exact options6_roundtrip. Qed.
Print Assumptions C07_dhcp6_options_roundtrip.
Theorem C07_dhcp6_iana_roundtrip :
  forall a addr, wf_ia a = true -> ia_addr a = Some addr -> ia_plen a = 0 ->
  parse_ia false (build_iana a addr) = Ok (Some a).
Proof. exact iana_roundtrip. Qed.
Print Assumptions C07_dhcp6_iana_roundtrip.
Theorem C07_dhcp6_iapd_roundtrip :
  forall a prefix, wf_ia a = true -> ia_addr a = Some prefix -> parse_ia true (build_iapd a prefix) = Ok (Some a).
Proof. exact iapd_roundtrip. Qed.
Print Assumptions C07_dhcp6_iapd_roundtrip.
Theorem C07_dhcp6_dns_roundtrip :
  forall l, wf_addrs l = true -> l <> [] -> parse_dns6 (concat l) = Ok l.
Proof. exact dns_roundtrip. Qed.
Print Assumptions C07_dhcp6_dns_roundtrip.
(* Response.Serialize then ParseMessage: client/server id, IA_NA with address, IA_PD with prefix, DNS, status code and
   any extra options whose codes the parser does not interpret *)
Theorem C07_dhcp6_message_roundtrip :
  forall r, wf_resp r = true -> parse_message6 (serialize6 r) = Ok (resp_expected r).
Proof. exact dhcp6_roundtrip. Qed.
Print Assumptions C07_dhcp6_message_roundtrip.
Example C07_dhcp6_message_roundtrip_nonvacuous :
  wf_resp ex_resp = true /\ lenN (serialize6 ex_resp) = 167.
Proof. exact dhcp6_roundtrip_nonvacuous. Qed.
Print Assumptions C07_dhcp6_message_roundtrip_nonvacuous.

(* ---- relay: BuildRelayForward applied any number of times (outermost first), then dhcp6.UnwrapRelay:
        the client's message comes back together with the parameters of the relay closest to the client ---- *)
Theorem C07_dhcp6_relay_roundtrip :
  forall ps msg m, ps <> [] -> wf_chain ps msg = true -> parse_message6 msg = Ok m -> hd 0 msg <> 12 ->
  unwrap_relay_top (wrap_all ps msg) = Ok (Some m, Some (rf_info (last ps (mkRF 0 [] [] [] [] 0 [])))).
Proof. exact relay_roundtrip. Qed.
Print Assumptions C07_dhcp6_relay_roundtrip.
Example C07_dhcp6_relay_roundtrip_nonvacuous :
  wf_chain [ex_rf2; ex_rf1] [1; 10; 11; 12; 0; 1; 0; 2; 170; 187] = true /\
  hd 0 [1; 10; 11; 12; 0; 1; 0; 2; 170; 187] <> 12 /\
  (exists m, parse_message6 [1; 10; 11; 12; 0; 1; 0; 2; 170; 187] = Ok m /\ o_client (m_opts m) = Some [170; 187]) /\
  lenN (wrap_all [ex_rf2; ex_rf1] [1; 10; 11; 12; 0; 1; 0; 2; 170; 187]) = 109.
Proof. exact relay_roundtrip_nonvacuous. Qed.
Print Assumptions C07_dhcp6_relay_roundtrip_nonvacuous.

(* ---- option 82: any sub-option list, and what relay.BuildOption82 writes ---- *)
Theorem C07_option82_suboptions_roundtrip :
  forall l, wf_subs l = true -> parse_sub82 (build_subs l) = Ok (sub82_fold l None None).
Proof. exact sub82_roundtrip. Qed.
Print Assumptions C07_option82_suboptions_roundtrip.
Theorem C07_option82_build_roundtrip :
  forall circuit remote flags, lenN circuit <? 256 = true -> lenN remote <? 256 = true ->
  exists body, build_opt82 circuit remote flags = 82 :: byte_of (lenN body) :: body /\
               parse_sub82 body = Ok (Some circuit, Some remote).
Proof. exact opt82_roundtrip. Qed.
Print Assumptions C07_option82_build_roundtrip.
Example C07_option82_build_roundtrip_nonvacuous :
  build_opt82 [101; 116; 104; 49] [109; 97; 99] (Some 1) = [82; 14; 1; 4; 101; 116; 104; 49; 2; 3; 109; 97; 99; 10; 1; 1].
Proof. exact opt82_roundtrip_nonvacuous. Qed.
Print Assumptions C07_option82_build_roundtrip_nonvacuous.

(* ---- DHCPv4: plugins/dhcp4/local buildDHCPv4Reply + optionWriter.addByte, then dhcp4.ParseMessage ---- *)
Theorem C07_dhcp4_message_roundtrip :
  forall xid ci yi si ch mt opts, wf_reply4 xid ci yi si ch opts = true ->
  parse_message4 (build_reply4 xid ci yi si ch mt opts) =
  (o <- o4_fold ((53, [mt]) :: opts) o4_0;;
   Ok (mkM4 2 1 6 0 xid 0 0 ci yi si (repeat 0 4) ch (repeat 0 64) (repeat 0 128) true o)).
Proof. exact dhcp4_roundtrip. Qed.
Print Assumptions C07_dhcp4_message_roundtrip.
Example C07_dhcp4_message_roundtrip_nonvacuous :
  wf_reply4 305419896 [0; 0; 0; 0] [10; 0; 0; 2] [10; 0; 0; 1] [2; 0; 0; 0; 0; 1]
            [(54, [10; 0; 0; 1]); (51, [0; 0; 14; 16]); (1, [255; 255; 255; 0]); (3, [10; 0; 0; 1]); (6, [8; 8; 8; 8; 1; 1; 1; 1])] = true /\
  (exists o, o4_fold [(53, [5]); (54, [10; 0; 0; 1]); (51, [0; 0; 14; 16]); (1, [255; 255; 255; 0]); (3, [10; 0; 0; 1]);
                      (6, [8; 8; 8; 8; 1; 1; 1; 1])] o4_0 = Ok o /\
             q_type o = 5 /\ q_lease o = 3600 /\ q_dns o = [[8; 8; 8; 8]; [1; 1; 1; 1]]).
Proof. exact dhcp4_roundtrip_nonvacuous. Qed.
Print Assumptions C07_dhcp4_message_roundtrip_nonvacuous.
(* the round trip is FALSE beyond 255 bytes per option value (wf_opt4 excludes it): the writer splits the value per
   RFC 3396, the parser does not concatenate.  64 DNS servers are built, 63 come back. *)
Theorem C07_dhcp4_split_roundtrip_refuted :
  exists m, parse_message4 (build_reply4 1 [0; 0; 0; 0] [10; 0; 0; 2] [10; 0; 0; 1] [2; 0; 0; 0; 0; 1] 5 [(6, dns64)]) = Ok m /\
            length (q_dns (w_opts m)) = 63%nat /\ lenN dns64 = 4 * 64.
Proof. exact dhcp4_split_refuted. Qed.
Print Assumptions C07_dhcp4_split_roundtrip_refuted.

(* ---- PPP control header: every sender in the repo frames code | id | length | data; the parsers give it back ---- *)
Theorem C07_ppp_header_roundtrip :
  forall v code id d, lenN d + 4 < 65536 -> ppp_hdr v (build_ppp code id d) = Ok (code, id, d).
Proof. exact ppp_hdr_roundtrip. Qed.
Print Assumptions C07_ppp_header_roundtrip.
Theorem C07_dispatcher_roundtrip :
  forall v cfg code id d, lenN d + 4 < 65536 ->
  handle_frame v cfg 49187 (build_ppp code id d) = Ok (RPap code id d) /\
  handle_frame v cfg 49699 (build_ppp code id d) = Ok (RChap code id d).
Proof. exact dispatcher_roundtrip. Qed.
Print Assumptions C07_dispatcher_roundtrip.

(* ---- admissible outcomes and sequences.  The property lets the code reject or ignore malformed input, so the theorems
   are stated for EVERY admissible implementation choice, not only for what /repo HEAD does: for a PPP-IPv6 (0x0057) frame whose
   Information field is not an IPv6 datagram both "handed to the host" (HEAD) and "dropped" are admissible; for every other
   input there is exactly one admissible outcome. ---- *)
Theorem C07_dispatcher_admissible_total :
  forall cfg proto payload o, frame_admissible Repaired cfg proto payload o -> is_crash o = false.
Proof. exact frame_admissible_total. Qed.
Print Assumptions C07_dispatcher_admissible_total.
(* nothing is loosened for well-formed input: a real IPv6 datagram (and every frame of another protocol) has one outcome *)
Theorem C07_dispatcher_admissible_wellformed_unique :
  forall v cfg proto payload o, proto <> 87 \/ ipv6_wellformed payload = true ->
  frame_admissible v cfg proto payload o -> o = handle_frame v cfg proto payload.
Proof. exact frame_admissible_wellformed. Qed.
Print Assumptions C07_dispatcher_admissible_wellformed_unique.
(* for every sequence of frames, every initial host state, every state-evolution function and every choice of admissible
   outcome at every step: no step panics or runs out of fuel *)
Theorem C07_dispatcher_sequence_total :
  forall next frames cfg outs, adm_run next cfg frames outs -> Forall (fun o => is_crash o = false) outs.
Proof. exact adm_run_total. Qed.
Print Assumptions C07_dispatcher_sequence_total.
(* /repo HEAD's policy (always hand 0x0057 to the host) is one of the admissible runs, with one outcome per frame *)
Theorem C07_dispatcher_sequence_head_admissible :
  forall next frames cfg, adm_run next cfg frames (disp_run next cfg frames).
Proof. exact adm_run_head. Qed.
Print Assumptions C07_dispatcher_sequence_head_admissible.
Theorem C07_dispatcher_sequence_one_outcome_per_frame :
  forall next frames cfg, length (disp_run next cfg frames) = length frames.
Proof. exact disp_run_length. Qed.
Print Assumptions C07_dispatcher_sequence_one_outcome_per_frame.
Example C07_dispatcher_admissible_nonvacuous :
  ipv6_wellformed (96 :: repeat 0 39) = true /\ ipv6_wellformed (repeat 0 39) = false /\ ipv6_wellformed (64 :: repeat 0 39) = false /\
  frame_admissible Repaired (mk_dcfg true true true) 87 [1; 2; 3] (Ok RNone) /\
  handle_frame Repaired (mk_dcfg true true true) 87 [1; 2; 3] = Ok (RIPv6 [1; 2; 3]).
Proof. exact ipv6_wellformed_nonvacuous. Qed.
Print Assumptions C07_dispatcher_admissible_nonvacuous.

(* ---- lock discipline of the PPPoE discovery handlers (PADI/PADR/PADT, every return path) and the session receive path
   (hand transcription [head_paths] of internal/pppoe and pkg/ppp):
   on every path, in every prefix: no lock is acquired while it is held (sync.Mutex is not re-entrant), locks are acquired in
   one global order (sidMu < sessionMu < session < LCP < IPCP < IPv6CP < RA buckets: no cyclic wait between goroutines), every blocking
   operation happens with no lock held, and every path ends with all locks released ---- *)
Theorem C07_lock_discipline_head :
  forallb (fun np => path_ok [] (snd np) && match held_after [] (snd np) with [] => true | _ => false end) head_paths = true.
Proof. exact head_paths_ok. Qed.
Print Assumptions C07_lock_discipline_head.
Theorem C07_lock_discipline_no_self_deadlock :
  forall a held l b, path_ok held (a ++ Acq l :: b) = true -> holds l (held_after held a) = false.
Proof. exact path_ok_acquire. Qed.
Print Assumptions C07_lock_discipline_no_self_deadlock.
Theorem C07_lock_discipline_ordered :
  forall a held l b, path_ok held (a ++ Acq l :: b) = true ->
  forallb (fun h => lrank h <? lrank l) (held_after held a) = true.
Proof. exact path_ok_ordered. Qed.
Print Assumptions C07_lock_discipline_ordered.
Theorem C07_lock_discipline_no_blocking_under_lock :
  forall a held b, path_ok held (a ++ Blocking :: b) = true -> held_after held a = [].
Proof. exact path_ok_blocking. Qed.
Print Assumptions C07_lock_discipline_no_blocking_under_lock.
(* the seeded changes of this class are rejected by the discipline: C07_q2 (rxjEvent re-enters Close() under f.mu),
   C07_m2 (dispatchDHCPv6 waits for a slot under the session lock), C07_r2 (error return of handlePADR leaves sidMu held) *)
Theorem C07_lock_discipline_seeded_refuted : path_ok [] path_q2 = false /\ path_ok [] path_m2 = false /\
  (path_ok [] path_r2 = true /\ held_after [] path_r2 = [LD]).
Proof. exact seeded_paths_refuted. Qed.
Print Assumptions C07_lock_discipline_seeded_refuted.
(* why "every path ends with no lock held" matters (seeded C07_r2: handlePADR returning the no-free-id error with sidMu
   held): whoever needs that lock afterwards waits for ever *)
Theorem C07_lock_discipline_leak_blocks :
  forall l held q, holds l held = true -> path_ok held (Acq l :: q) = false.
Proof. exact leaked_lock_blocks. Qed.
Print Assumptions C07_lock_discipline_leak_blocks.

(* ---- one L2TP datagram from the wire to its handler (internal/l2tp Dispatch, dispatchSCCRQ, HandleSCCRQ's AVP extraction,
   pkg/l2tp FindFirst / DecodeUint16 / DecodeMessageType, then the PPP path): end-to-end, for every byte string ---- *)
Theorem C07_l2tp_datagram_total : forall auth b, is_crash (l2tp_dispatch auth b) = false.
Proof. exact l2tp_dispatch_total. Qed.
Print Assumptions C07_l2tp_datagram_total.
(* DecodeUint16 slices a.Value[:2] ("caller must have validated"): safe exactly under the guard every caller applies ... *)
Theorem C07_l2tp_decode_u16_guarded : forall a, 2 <= lenN (a_value a) -> is_crash (decode_u16 a) = false.
Proof. exact decode_u16_guarded. Qed.
Print Assumptions C07_l2tp_decode_u16_guarded.
(* ... and not without it: the guard in the callers is what the totality of the handlers rests on *)
Theorem C07_l2tp_decode_u16_needs_guard : exists a, decode_u16 a = Panic.
Proof. exact decode_u16_unguarded_panics. Qed.
Print Assumptions C07_l2tp_decode_u16_needs_guard.
Theorem C07_l2tp_sccrq_extract_total : forall l, is_crash (sccrq_extract l) = false.
Proof. exact sccrq_extract_total. Qed.
Print Assumptions C07_l2tp_sccrq_extract_total.
Theorem C07_l2tp_peer_rws_total : forall l, is_crash (peer_rws l) = false.
Proof. exact peer_rws_total. Qed.
Print Assumptions C07_l2tp_peer_rws_total.
(* an SCCRQ as BuildSCCRQ lays it out (Message Type, Host Name, Assigned Tunnel ID, then any other AVPs that are not a second
   Host Name / Assigned Tunnel ID / a Challenge) parses to the same AVPs, the handler extracts the tunnel id it was built with,
   and the resolver sees the host name it was built with *)
Theorem C07_l2tp_sccrq_roundtrip :
  forall host tid extra, tid < 65536 -> lenN host <=? 1017 = true -> wf_avps extra = true ->
  forallb (fun a => negb ((a_vendor a =? 0) && ((a_type a =? 7) || (a_type a =? 9) || (a_type a =? 11)))) extra = true ->
  parse_avps (build_avps (sccrq_avps host tid extra)) = Ok (sccrq_avps host tid extra) /\
  sccrq_extract (sccrq_avps host tid extra) = Ok (Some tid) /\
  option_map a_value (find_first 0 7 (sccrq_avps host tid extra)) = Some host.
Proof. exact sccrq_roundtrip. Qed.
Print Assumptions C07_l2tp_sccrq_roundtrip.
Example C07_l2tp_sccrq_roundtrip_nonvacuous :
  wf_avps [mkAvp true false 0 2 [1; 0]; mkAvp true false 0 10 (put16 8)] = true /\
  lenN (build_avps (sccrq_avps [108; 97; 99; 49] 4242 [mkAvp true false 0 2 [1; 0]; mkAvp true false 0 10 (put16 8)])) = 42 /\
  peer_rws (sccrq_avps [108; 97; 99; 49] 4242 [mkAvp true false 0 2 [1; 0]; mkAvp true false 0 10 (put16 8)]) = Ok 8.
Proof. exact sccrq_roundtrip_nonvacuous. Qed.
Print Assumptions C07_l2tp_sccrq_roundtrip_nonvacuous.

(* ---- the LNS side of internal/l2tp over SEQUENCES of datagrams from a peer (SCCRQ, SCCCN, ICRQ, ICCN, CDN, StopCCN, Hello,
   ZLB, wrong-role SCCRP / ICRP, data frames, garbage): for every sequence, from every state, no step panics or runs out of
   fuel — every AVP value decoder on these paths is reached only under its length guard ---- *)
Theorem C07_l2tp_lns_step_total : forall auth st b, is_crash (lns_step auth st b) = false.
Proof. exact lns_step_total. Qed.
Print Assumptions C07_l2tp_lns_step_total.
Theorem C07_l2tp_lns_sequence_total : forall auth ds st, is_crash (lns_run auth st ds) = false.
Proof. exact lns_run_total. Qed.
Print Assumptions C07_l2tp_lns_sequence_total.
(* non-vacuity: an SCCRQ from the authorised LAC opens tunnel 1 towards peer tunnel 4242, the SCCCN establishes it *)
Example C07_l2tp_lns_nonvacuous :
  exists st, lns_run [108] lns0
    [ [200; 2; 0; 35; 0; 0; 0; 0; 0; 0; 0; 0;  128; 8; 0; 0; 0; 0; 0; 1;  128; 7; 0; 0; 0; 7; 108;  128; 8; 0; 0; 0; 9; 16; 146];
      [200; 2; 0; 20; 0; 1; 0; 0; 0; 1; 0; 1;  128; 8; 0; 0; 0; 0; 0; 3] ] = Ok st /\
    map lns_toks st = [[TN 1; TN 1; TN 4242; TN 2; TN 0]; [TN 1; TN 1; TN 4242; TN 3; TN 0]].
Proof. exact lns_nonvacuous. Qed.
Print Assumptions C07_l2tp_lns_nonvacuous.

(* ---- PPPoE AC-Cookie validation (pkg/pppoe/cookie.go, fed by the subscriber's PADR) and the L2TP challenge response
   (pkg/l2tp/challenge.go, fed by the peer's SCCRP / SCCCN) ---- *)
Theorem C07_pppoe_cookie_total : forall cookie d fresh, is_crash (cookie_validate cookie d fresh) = false.
Proof. exact cookie_validate_total. Qed.
Print Assumptions C07_pppoe_cookie_total.
Theorem C07_pppoe_cookie_sound : forall cookie d fresh, cookie_validate cookie d fresh = Ok true ->
  lenN cookie = 36 /\ fresh = true /\ sl 0 32 cookie = Ok d.
Proof. exact cookie_validate_sound. Qed.
Print Assumptions C07_pppoe_cookie_sound.
Theorem C07_l2tp_challenge_response_total : forall observed d, is_crash (verify_challenge observed d) = false.
Proof. exact verify_challenge_total. Qed.
Print Assumptions C07_l2tp_challenge_response_total.

(* ---- DHCPv6 proxy path (pkg/dhcp/relay/v6rewrite.go): the server's reply is walked and patched; IA options nest, so
   rewriteV6Options is recursive (a self-referential message cannot make it run away: each call works on shorter data) ---- *)
Theorem C07_relay_v6_server_duid_total : forall pkt, is_crash (get_server_duid pkt) = false.
Proof. exact get_server_duid_total. Qed.
Print Assumptions C07_relay_v6_server_duid_total.
Theorem C07_relay_v6_replace_duid_total : forall pkt duid, is_crash (replace_server_duid pkt duid) = false.
Proof. exact replace_server_duid_total. Qed.
Print Assumptions C07_relay_v6_replace_duid_total.
Theorem C07_relay_v6_rewrite_lifetimes_total : forall pkt pref valid, is_crash (rewrite_v6_lifetimes pkt pref valid) = false.
Proof. exact rewrite_v6_lifetimes_total. Qed.
Print Assumptions C07_relay_v6_rewrite_lifetimes_total.
Theorem C07_relay_v6_rewrite_lifetimes_total_fuel :
  forall fuel data pref valid, (length data < fuel)%nat -> is_crash (rw6 fuel data pref valid) = false.
Proof. exact rw6_total. Qed.
Print Assumptions C07_relay_v6_rewrite_lifetimes_total_fuel.
(* DHCPv4 relay accessors GetGIAddr / SetGIAddr / GetHops / IncrementHops *)
Theorem C07_relay_giaddr_hops_total : forall pkt ip,
  is_crash (get_giaddr pkt) = false /\ is_crash (set_giaddr pkt ip) = false /\ is_crash (get_hops pkt) = false /\
  is_crash (incr_hops pkt) = false.
Proof. exact giaddr_hops_total. Qed.
Print Assumptions C07_relay_giaddr_hops_total.
