From Coq Require Import Extraction ExtrOcamlBasic.
From OV Require Import Common.Base C13.Model.
From OV Require C13.Linearizable.
Extraction Language OCaml.
Extraction "C13_model.ml" init_state_gen empty_store step get_handler no_faults no_guard Repaired PreAudit2 RestoreUnreported BootUnatomic FrrDefect Defective OV.C13.Linearizable.mgr_step.
