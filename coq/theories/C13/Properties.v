(* C13/Properties.v — the property theorems only.  Each is closed by [exact] of a lemma from
   Proofs.v (or by computation for witnesses) and followed by Print Assumptions.

   [Repaired] is the behaviour after fixes/C13_persist_before_swap.patch plus an atomic Set;
   [Defective] is pkg/configmgr as it is today.  The full theorems are about [Repaired]; the
   [_refuted] theorems exhibit histories on which [Defective] violates them. *)
From OV Require Import Common.Base C13.Model C13.Proofs.

(* reachable states of the repaired manager, from any initial running configuration, under any
   registry, any pre-commit guard and any history (incl. every fault plan) satisfy the invariant *)
Theorem C13_reachable_invariant :
  forall reg g r ops, Inv (run Repaired reg g (init_state r) ops).
Proof. intros. apply inv_run, inv_init. Qed.
Print Assumptions C13_reachable_invariant.

(* ATOMIC.  Whatever the state (reachable or not), whatever fails — session lookup, dependency
   resolution, pre-commit validation, the k-th handler, routing-daemon test or reload, the startup
   file write — a Commit that does not return ok leaves running, startup, the startup file, the
   version files and the version list exactly as they were; the only state change is idle expiry and
   the refreshed activity stamp of the session; and the Rollback calls are exactly the successful
   Apply calls in reverse order. *)
Theorem C13_atomic :
  forall reg g st id f st' r evs,
  do_commit Repaired reg g st id f = (st', r, evs) -> r <> ROk ->
  st' = touch_state (expire st) id /\ persisted st' = persisted st /\
  rolled evs = rev (applied_ok evs).
Proof. exact atomic. Qed.
Print Assumptions C13_atomic.

(* The same holds of the code as it is today ([Defective], and any other variant) for every failure point
   except the two persistence failures. *)
Theorem C13_atomic_today_partial :
  forall var reg g st id f st' r evs,
  do_commit var reg g st id f = (st', r, evs) ->
  r <> ROk -> r <> RStartupSave -> r <> RVersionSave ->
  st' = touch_state (expire st) id /\ rolled evs = rev (applied_ok evs).
Proof. exact commit_early_failure. Qed.
Print Assumptions C13_atomic_today_partial.

(* FRAME.  In every reachable state a successful Commit publishes the session's candidate to
   running, startup and the startup file, and the new running configuration differs from the
   previous one only at leaves whose path was set in this session and at containers that are
   prefixes of such paths; nothing is rolled back. *)
Theorem C13_frame :
  forall reg g r ops id f st' evs,
  let st := run Repaired reg g (init_state r) ops in
  do_commit Repaired reg g st id f = (st', ROk, evs) ->
  exists s, find_session (sessions (expire st)) id = Some s /\ s_changes s <> [] /\
    running st' = s_cand s /\ startup st' = s_cand s /\ sfile st' = Some (s_cand s) /\
    (forall p, ~ In p (map c_path (s_changes s)) -> get_leaf (running st') p = get_leaf (running st) p) /\
    (forall c, has_cont (running st) c = true -> has_cont (running st') c = true) /\
    (forall c, has_cont (running st') c = true -> has_cont (running st) c = true \/
               exists p, In p (map c_path (s_changes s)) /\ is_prefix c p) /\
    rolled evs = [].
Proof. intros reg g r ops id f st' evs st H. eapply frame; eauto. apply inv_run, inv_init. Qed.
Print Assumptions C13_frame.

(* ISOLATION.  In every reachable state the only operation that changes running, startup, the
   startup file, the version files or the version list is a Commit that returns ok: candidate edits
   (Set), Create, Close, Delete, Rollback-to-version, the passing of time and failed commits do not. *)
Theorem C13_isolation :
  forall reg g r ops o st' res evs,
  let st := run Repaired reg g (init_state r) ops in
  step Repaired reg g st o = (st', res, evs) ->
  persisted st' <> persisted st -> exists id f, o = OCommit id f /\ res = ROk.
Proof. intros reg g r ops o st' res evs st H. eapply isolation; eauto. apply inv_run, inv_init. Qed.
Print Assumptions C13_isolation.

(* a Set in particular is invisible in running *)
Theorem C13_set_invisible :
  forall reg g r ops id p v vf st' res,
  let st := run Repaired reg g (init_state r) ops in
  do_set Repaired reg st id p v vf = (st', res) -> running st' = running st.
Proof.
  intros reg g r ops id p v vf st' res st H.
  eapply inv_set in H; [apply H | apply inv_run, inv_init].
Qed.
Print Assumptions C13_set_invisible.

(* SINGLE LOCK.  In every reachable state there is at most one candidate session, it is the lock
   owner, and without a session the lock is free. *)
Theorem C13_single_lock :
  forall reg g r ops,
  let st := run Repaired reg g (init_state r) ops in
  (forall s1 s2, In s1 (sessions st) -> In s2 (sessions st) -> s1 = s2) /\
  (forall s, In s (sessions st) -> lock st = Some (s_id s)) /\
  (sessions st = [] -> lock st = None).
Proof. intros. apply single_lock, inv_run, inv_init. Qed.
Print Assumptions C13_single_lock.

(* Create is refused exactly while the lock is held (after idle expiry) and a granted session starts
   as a copy of running with no changes *)
Theorem C13_create_refused :
  forall st o, lock (expire st) = Some o -> do_create st = (expire st, RLocked).
Proof. exact create_refused. Qed.
Print Assumptions C13_create_refused.
Theorem C13_create_granted :
  forall st st' id, do_create st = (st', RId id) ->
  lock (expire st) = None /\ lock st' = Some id /\ id = (next_id st + 1)%N /\
  exists s, In s (sessions st') /\ s_id s = id /\ s_cand s = running st /\ s_changes s = [].
Proof. exact create_granted. Qed.
Print Assumptions C13_create_granted.

(* ---------------------------------------------------------------- witnesses *)
(* registry: 0 = a.<*>.m (int leaf under a map entry), 1 = b.e (bool leaf under a pointer, reload) *)
Definition ex_reg : registry :=
  [ {| h_pat := [PLit 1; PWild; PLit 2]; h_kind := KInt; h_conts := [1; 2]%nat; h_deps := []; h_frr := false |};
    {| h_pat := [PLit 5; PLit 6]; h_kind := KBool; h_conts := [1]%nat; h_deps := []; h_frr := true |} ]%N.
Definition ex_p : path := [1; 3; 2]%N.          (* a.x.m *)
Definition ex_q : path := [1; 4; 2]%N.          (* a.y.m *)
Definition ex_b : path := [5; 6]%N.             (* b.e   *)
Definition ex_ops : list op :=
  [OCreate; OSet 1 ex_p (VInt 1500) false; OSet 1 ex_b (VBool true) false].
Definition f_with (k : nat) (t r s v : bool) : faults :=
  {| f_apply := k; f_test := t; f_reload := r; f_startup := s; f_version := v |}.

(* non-vacuity of C13_atomic: every failure point is reachable and rolls back something *)
Example C13_atomic_nonvacuous :
  let st := run Repaired ex_reg None (init_state empty_store) ex_ops in
  snd (fst (do_commit Repaired ex_reg None st 1 (f_with 2 false false false false))) = RApplyFail /\
  snd (fst (do_commit Repaired ex_reg None st 1 (f_with 0 true false false false))) = RFrrTest /\
  snd (fst (do_commit Repaired ex_reg None st 1 (f_with 0 false true false false))) = RFrrReload /\
  snd (fst (do_commit Repaired ex_reg None st 1 (f_with 0 false false true false))) = RStartupSave /\
  rolled (snd (do_commit Repaired ex_reg None st 1 (f_with 0 false false true false))) =
    [(ex_b, VBool true); (ex_p, VInt 1500)] /\
  snd (fst (do_commit Repaired ex_reg (Some ([1;3], ex_p, 1512%Z)) st 1 no_faults))%N = RPrecommit.
Proof. vm_compute. repeat split. Qed.
Print Assumptions C13_atomic_nonvacuous.

(* non-vacuity of C13_frame / C13_isolation: a commit succeeds and changes running *)
Example C13_frame_nonvacuous :
  let st := run Repaired ex_reg None (init_state empty_store) ex_ops in
  let '(st', r, evs) := do_commit Repaired ex_reg None st 1 (f_with 0 false false false true) in
  r = ROk /\ get_leaf (running st') ex_p = Some (SInt 1500) /\ get_leaf (running st) ex_p = None /\
  sessions st' = [] /\ lock st' = None /\ length (vmem st') = 1%nat /\ vfiles st' = [].
Proof. vm_compute. repeat split. Qed.
Print Assumptions C13_frame_nonvacuous.

(* ---------------------------------------------------------------- what the code violates today *)
(* startup-file write fails: Commit returns an error although running and startup were replaced,
   and nothing is rolled back *)
Theorem C13_atomic_refuted :
  exists reg g ops id f st' r evs,
  let st := run Defective reg g (init_state empty_store) ops in
  do_commit Defective reg g st id f = (st', r, evs) /\ r <> ROk /\
  running st' <> running st /\ startup st' <> startup st /\ rolled evs <> rev (applied_ok evs).
Proof.
  exists ex_reg, None, ex_ops, 1%N, (f_with 0 false false true false).
  eexists; eexists; eexists. cbv zeta. split; [vm_compute; reflexivity|].
  split; [discriminate|]. split; [|split].
  - intros E. apply (f_equal (fun s => get_leaf s ex_p)) in E. vm_compute in E. discriminate.
  - intros E. apply (f_equal (fun s => get_leaf s ex_p)) in E. vm_compute in E. discriminate.
  - vm_compute. discriminate.
Qed.
Print Assumptions C13_atomic_refuted.

(* version write fails: Commit returns an error after the commit has fully taken effect *)
Theorem C13_atomic_version_refuted :
  exists reg g ops id f st' r evs,
  let st := run Defective reg g (init_state empty_store) ops in
  do_commit Defective reg g st id f = (st', r, evs) /\ r = RVersionSave /\
  running st' <> running st /\ sfile st' <> sfile st /\ sessions st' = [].
Proof.
  exists ex_reg, None, ex_ops, 1%N, (f_with 0 false false false true).
  eexists; eexists; eexists. cbv zeta. split; [vm_compute; reflexivity|].
  split; [reflexivity|]. split; [|split].
  - intros E. apply (f_equal (fun s => get_leaf s ex_p)) in E. vm_compute in E. discriminate.
  - vm_compute. discriminate.
  - reflexivity.
Qed.
Print Assumptions C13_atomic_version_refuted.

(* after that failed commit the session is still open and shares its configuration object with
   running: a Set, which is not a commit, changes the running configuration *)
Theorem C13_isolation_refuted :
  exists reg g ops id p v st' res,
  let st := run Defective reg g (init_state empty_store) ops in
  do_set Defective reg st id p v false = (st', res) /\ res = ROk /\ running st' <> running st.
Proof.
  exists ex_reg, None, (ex_ops ++ [OCommit 1 (f_with 0 false false true false)]), 1%N, ex_p, (VInt 9000).
  eexists; eexists. cbv zeta. split; [vm_compute; reflexivity|]. split; [reflexivity|].
  intros E. apply (f_equal (fun s => get_leaf s ex_p)) in E. vm_compute in E. discriminate.
Qed.
Print Assumptions C13_isolation_refuted.

(* a Set that fails in convertValue has already created containers; the next successful commit
   publishes a container that is not a prefix of any path set in the session *)
Theorem C13_frame_refuted :
  exists reg g ops id f st' evs c,
  let st := run Defective reg g (init_state empty_store) ops in
  do_commit Defective reg g st id f = (st', ROk, evs) /\
  has_cont (running st') c = true /\ has_cont (running st) c = false /\
  forall s, find_session (sessions (expire st)) id = Some s ->
  forall p, In p (map c_path (s_changes s)) -> ~ is_prefix c p.
Proof.
  exists ex_reg, None,
    [OCreate; OSet 1 ex_q (VStr [97]%N) false; OSet 1 ex_p (VInt 1500) false], 1%N, no_faults.
  eexists; eexists; exists [1; 4]%N. cbv zeta. split; [vm_compute; reflexivity|].
  split; [reflexivity|]. split; [reflexivity|].
  intros s Hs p Hp [n Hn]. vm_compute in Hs. inversion Hs; subst s; clear Hs.
  simpl in Hp. destruct Hp as [Hp|[]]. subst p.
  destruct n as [|[|[|[|n]]]]; vm_compute in Hn; discriminate.
Qed.
Print Assumptions C13_frame_refuted.

(* ---------------------------------------------------------------- concurrency *)
From OV Require C13.Atomic C13.Linearizable.

(* LINEARIZABLE.  Goroutines run arbitrary programs of manager calls (Create, Close, Set, Delete, Commit,
   Rollback-to-version under cd.mu.Lock; GetRunning, GetStartup, ListVersions under cd.mu.RLock); each
   call is split into invoke / acquire / read / compute-on-a-local-copy+store / unlock / respond and other
   goroutines are scheduled between any two of these.  Every history of a quiescent configuration has a
   sequential reordering that (a) looks the same to every goroutine, (b) is legal for the sequential
   model [Model.step] that all the theorems above are about, (c) respects real-time order.  For every
   variant, registry, guard and initial state.  Assumption about Go: sync.RWMutex excludes as
   [Atomic.can_acquire] says; which methods hold the lock throughout is listed in Linearizable.v. *)
Theorem C13_linearizable :
  forall var reg g st0 progs c,
  Linearizable.m_reach var reg g st0 progs c -> Atomic.quiescent c ->
  Linearizable.mgr_linearizable var reg g st0 (Atomic.c_hist c).
Proof. exact Linearizable.mgr_ops_linearizable. Qed.
Print Assumptions C13_linearizable.

(* non-vacuity: a reachable quiescent configuration in which two Create calls overlap in real time (one is
   granted, the other refused) and a GetRunning runs between the invocation and the response of a Commit
   and still sees the old configuration *)
Example C13_linearizable_nonvacuous :
  exists c, Linearizable.m_reach Repaired Linearizable.lx_reg None Linearizable.lx_st0 Linearizable.lx_progs c /\
            Atomic.quiescent c /\ length (Atomic.c_hist c) = 10%nat /\
            get_leaf (running (Atomic.c_sh c tt)) Linearizable.lx_p = Some (SInt 1500).
Proof.
  destruct Linearizable.lx_reachable as [c [R [Q [r0 [r2 [s1 [l [H [_ [_ [_ E]]]]]]]]]]].
  exists c. repeat split; auto. rewrite H. reflexivity.
Qed.
Print Assumptions C13_linearizable_nonvacuous.

(* ---------------------------------------------------------------- idle expiry (conf.go:817-832) *)
(* Every API call first expires sessions idle for the limit (15 min) or longer.  In every reachable state:
   expiry never touches a datastore; sessions that are not idle are left exactly as they are (the whole
   state is unchanged); an idle session disappears together with its lock, so the next Create is granted
   and every call naming the expired session is refused. *)
Theorem C13_idle_expiry :
  forall reg g r ops,
  let st := run Repaired reg g (init_state r) ops in
  persisted (expire st) = persisted st /\
  ((forall s, In s (sessions st) -> (s_idle s <? idle_limit)%N = true) -> expire st = st) /\
  (forall s, In s (sessions st) -> (s_idle s <? idle_limit)%N = false ->
     sessions (expire st) = [] /\ lock (expire st) = None /\
     snd (do_create st) = RId (next_id st + 1)%N /\
     forall id, (forall p v vf, do_set Repaired reg st id p v vf = (expire st, RNoSession)) /\
                (forall f, do_commit Repaired reg g st id f = (expire st, RNoSession, [])) /\
                do_close st id = (expire st, RNoSession) /\ do_delete st id = (expire st, RNoSession)).
Proof.
  intros reg g r ops st. assert (HI : Inv st) by apply inv_run, inv_init.
  split; [apply expire_persisted|]. split; [apply expire_alive|].
  intros s Hin Ha. destruct (expire_idle _ _ HI Hin Ha) as [A B].
  repeat split; auto.
  - eapply expired_create; eauto.
  - eapply expired_refused; eauto.
  - eapply expired_refused; eauto.
  - eapply (expired_refused Repaired reg g); eauto.
  - eapply (expired_refused Repaired reg g); eauto.
Qed.
Print Assumptions C13_idle_expiry.

(* a Set that finds its session refreshes the activity stamp (so does Delete and a failed Commit, by
   [touch_state] in C13_atomic) *)
Theorem C13_set_touches :
  forall var reg st id p v vf st' r,
  do_set var reg st id p v vf = (st', r) -> r <> RNoSession ->
  forall s, In s (sessions st') -> s_id s = id -> s_idle s = 0%N.
Proof. exact set_touches. Qed.
Print Assumptions C13_set_touches.

(* non-vacuity: 14 + 1 minutes of inactivity expire the session; 14 do not *)
Example C13_idle_expiry_nonvacuous :
  let st14 := run Repaired ex_reg None (init_state empty_store) [OCreate; OTick 14] in
  let st15 := run Repaired ex_reg None (init_state empty_store) [OCreate; OTick 14; OTick 1] in
  expire st14 = st14 /\ snd (do_create st14) = RLocked /\
  sessions (expire st15) = [] /\ snd (do_create st15) = RId 2 /\
  snd (do_set Repaired ex_reg st15 1 ex_p (VInt 1) false) = RNoSession.
Proof. vm_compute. repeat split. Qed.
Print Assumptions C13_idle_expiry_nonvacuous.

(* ---------------------------------------------------------------- exactly what was set *)
(* In every reachable state a successful Commit publishes exactly the previous running configuration
   with the Sets of this session replayed on it in the order they were made (each Set = containers on the
   way + the converted value at the leaf; failed Sets contribute nothing).  Together with C13_frame this
   is "changes only what was set, and to what it was set". *)
Theorem C13_commit_publishes_replay :
  forall reg g r ops id f st' evs,
  let st := run Repaired reg g (init_state r) ops in
  do_commit Repaired reg g st id f = (st', ROk, evs) ->
  exists s, find_session (sessions (expire st)) id = Some s /\
            running st' = replay reg (running st) (s_changes s).
Proof.
  intros reg g r ops id f st' evs st H.
  eapply commit_publishes_replay; eauto; [apply inv_run, inv_init | apply inv2_run; [apply inv_init | apply inv2_init]].
Qed.
Print Assumptions C13_commit_publishes_replay.
