(* C13/Properties.v — the property theorems only.  Each is closed by [exact]/[apply] of a lemma from
   Proofs.v (or by computation for witnesses) and followed by Print Assumptions.

   /repo HEAD is the variant [Repaired]: every recorded finding is fixed (1761ed1 x2, 61c97e1, e792c74,
   4214320 report a failed daemon restore, ce2c6ad a failed start-up must not leave its configuration running).
   The model keeps one [variant] flag per former defect only for the historical [_refuted] witnesses at the end
   of this file ([PreAudit2] = the tree before 4214320 and ce2c6ad); the correspondence compares /repo with
   [Repaired] alone.  [fixed var] = persist-before-swap and atomic Set are repaired; theorems are stated for
   every such variant, clauses that depend on a later fix carry its flag as a hypothesis (true of [Repaired]).
   "Reachable" means: reachable from an initial state by a history of northbound operations
   and administrative methods ([forallb inv_ok ops]: Create, Close, Delete, Set, Commit, Rollback-to-version,
   time, SaveStartup, ResetForRecovery, ReloadFRR).  LoadConfig and the
   start-up path (ApplyLoadedConfig) replace the whole candidate / alias it with running by design; they
   are operations of the model and of the correspondence, and the theorems that do not need reachability
   (C13_atomic, C13_commit_validates, C13_create_granted, the call-stream theorems) cover them. *)
From OV Require Import Common.Base C13.Model C13.Proofs.

Theorem C13_head_is_fixed :
  fixed Repaired /\ v_frr_restore Repaired = true /\ v_report_restore Repaired = true /\ v_boot_atomic Repaired = true.
Proof. split; [apply fixed_repaired | repeat split]. Qed.
Print Assumptions C13_head_is_fixed.

(* reachable states, from any initial running configuration (running and startup one object or two), under
   any registry, any pre-commit guard and any history incl. every fault plan: at most one session, it owns
   the lock, its configuration OBJECT is neither the running nor the startup object, its candidate agrees
   with running outside the paths it set *)
Theorem C13_reachable_invariant :
  forall var reg g r shared ops, fixed var -> forallb inv_ok ops = true ->
  Inv (run var reg g (init_state_gen r shared) ops).
Proof. intros. apply inv_run; auto. apply inv_init. Qed.
Print Assumptions C13_reachable_invariant.

(* ATOMIC.  Whatever the state (reachable or not), whatever fails — session lookup, dependency resolution,
   pre-commit validation (MSS-clamp parent MTU, colliding subscriber groups), a missing handler, the k-th
   Apply, routing-daemon test or reload, the startup file write — and whatever the Rollback calls return:
   a Commit that does not return ok leaves running, startup, the startup file, the version files and the
   version list exactly as they were; apart from the daemon field the state is [touch_state (expire st) id]
   (idle expiry + the session's activity stamp); the recorded Rollback calls are exactly the successful
   Apply calls in reverse order; and the routing daemon is either untouched or, when a reload had been
   attempted, back on the running configuration, OR the restoring reload failed as well ([f_restore]: the
   daemon is down) — then the daemon may still run the candidate, and in the variants with
   [v_report_restore] (HEAD) the returned error says so ([RFrrReloadU]/[RStartupSaveU]); before 4214320 it was
   only logged ([C13_restore_unreported_refuted]). *)
Theorem C13_atomic :
  forall var reg g st id f st' r evs, fixed var ->
  do_commit var reg g st id f = (st', r, evs) -> r <> ROk ->
  (exists d, st' = set_frr (touch_state (expire st) id) d) /\ persisted st' = persisted st /\
  (v_frr_restore var = true \/ f_reload f <> 2%nat ->
     (frr st' = frr st \/ (In EFrrReload evs /\ frr st' = Some (running st))) \/
     (f_restore f = true /\ (v_report_restore var = true -> r = RFrrReloadU \/ r = RStartupSaveU))) /\
  rolled evs = rev (applied_ok evs).
Proof. exact atomic. Qed.
Print Assumptions C13_atomic.

(* Also for the variants before the fixes, for every failure point except reload and persistence failures. *)
Theorem C13_atomic_any_variant :
  forall var reg g st id f st' r evs,
  do_commit var reg g st id f = (st', r, evs) ->
  r <> ROk -> r <> RStartupSave -> r <> RVersionSave -> r <> RFrrReload -> r <> RFrrReloadU -> r <> RStartupSaveU ->
  st' = touch_state (expire st) id /\ rolled evs = rev (applied_ok evs).
Proof. exact commit_early_failure. Qed.
Print Assumptions C13_atomic_any_variant.

(* ROLLBACK ORDER as a statement about the call stream.  rollbackChanges is transcribed literally (index
   loop from len-1 down to 0, skip when the handler lookup fails, the error of Rollback dropped); for every
   applied list whose elements have a handler — which the apply loop guarantees — the stream of Rollback
   calls, successful or not, is the applied list reversed, and it contains no Apply call. *)
Theorem C13_rollback_stream :
  forall reg applied k, Forall (has_h reg) applied ->
  rolled (rollback_evs reg applied k) = rev (map ckey applied) /\
  applied_ok (rollback_evs reg applied k) = [].
Proof. exact rollback_evs_spec. Qed.
Print Assumptions C13_rollback_stream.
Theorem C13_apply_stream :
  forall reg chs k applied outcome evs need,
  apply_loop reg chs 0 k [] [] false = (applied, outcome, evs, need) ->
  applied_ok evs = map ckey applied /\ rolled evs = [] /\ Forall (has_h reg) applied.
Proof. intros. eapply apply_loop_spec; eauto. Qed.
Print Assumptions C13_apply_stream.

(* FRAME.  In every reachable state a successful Commit publishes the session's candidate to running and
   startup, the scrubbed candidate to the startup file, leaves the daemon alone or on the new running
   configuration, and the new running configuration differs from the previous one only at leaves whose path
   was set in this session and at containers that are prefixes of such paths; nothing is rolled back. *)
Theorem C13_frame :
  forall var reg g r shared ops id f st' evs, fixed var -> forallb inv_ok ops = true ->
  let st := run var reg g (init_state_gen r shared) ops in
  do_commit var reg g st id f = (st', ROk, evs) ->
  exists s, find_session (sessions (expire st)) id = Some s /\ s_changes s <> [] /\
    running st' = s_cand s /\ startup st' = s_cand s /\ sfile st' = Some (scrub g (s_cand s)) /\
    (frr st' = frr st \/ frr st' = Some (running st')) /\
    (forall p, touched (s_changes s) p = false -> get_leaf (running st') p = get_leaf (running st) p) /\
    (forall c, has_cont (running st) c = true -> has_cont (running st') c = true \/ touched (s_changes s) c = true) /\
    (forall c, has_cont (running st') c = true -> has_cont (running st) c = true \/
               exists p, In p (map c_path (s_changes s)) /\ is_prefix c p) /\
    rolled evs = [].
Proof. intros var reg g r shared ops id f st' evs HV HP st H. eapply frame; eauto. apply inv_run; auto. apply inv_init. Qed.
Print Assumptions C13_frame.

(* WHOLE-ENTRY SET.  A successful Set of a struct-valued path (a map entry such as interfaces.<*>, vrfs.<*>, or a
   pointer field such as interfaces.<*>.ipv6, with a pointer to a struct) replaces the entry: below the path only the fields of the new struct remain, no container of the
   old entry survives, and nothing outside the entry changes.  Every variant. *)
Theorem C13_obj_set_replaces :
  forall var s h p fs s',
  h_kind h = KObj \/ h_kind h = KObjF -> set_store var s h p (VObj fs) = (s', true) ->
  (forall q, is_prefix_b p q = true -> (forall f, In f fs -> q <> p ++ [fst f]) -> get_leaf s' q = None) /\
  (forall c, has_cont s' c = true -> is_prefix_b p c = true -> c = p) /\
  (forall q, is_prefix_b p q = false -> get_leaf s' q = get_leaf s q).
Proof. exact obj_set_replaces. Qed.
Print Assumptions C13_obj_set_replaces.

(* ... and exactly: the previous running configuration with the session's Sets replayed in order *)
Theorem C13_commit_publishes_replay :
  forall var reg g r shared ops id f st' evs, fixed var -> forallb inv_ok ops = true ->
  let st := run var reg g (init_state_gen r shared) ops in
  do_commit var reg g st id f = (st', ROk, evs) ->
  exists s, find_session (sessions (expire st)) id = Some s /\
            running st' = replay reg (running st) (s_changes s).
Proof.
  intros var reg g r shared ops id f st' evs HV HP st H.
  eapply commit_publishes_replay; eauto; [apply inv_run; auto; apply inv_init | apply inv2_run; auto; [apply inv_init | apply inv2_init]].
Qed.
Print Assumptions C13_commit_publishes_replay.

(* ISOLATION.  In every reachable state, among the northbound operations of the model (Create, Close, Delete,
   Set, Commit, Rollback-to-version, time) the only one that changes running, startup, the startup file, the
   version files or the version list is a Commit that returns ok, and the only one that touches the routing
   daemon is a Commit.  Exported methods that are NOT operations of the model and do change such state
   without a commit: SaveStartup, ReloadFRR, ResetForRecovery, LoadFromDataplane, LoadVersions (and the
   start-up path, which is modelled as [OBoot] but is not [plain]). *)
Theorem C13_isolation :
  forall var reg g r shared ops o st' res evs, fixed var -> forallb inv_ok ops = true -> plain o = true ->
  let st := run var reg g (init_state_gen r shared) ops in
  step var reg g st o = (st', res, evs) ->
  (persisted st' <> persisted st -> exists id f, o = OCommit id f /\ res = ROk) /\
  (frr st' <> frr st -> exists id f, o = OCommit id f).
Proof. intros var reg g r shared ops o st' res evs HV HP HO st H. eapply isolation; eauto. apply inv_run; auto. apply inv_init. Qed.
Print Assumptions C13_isolation.

(* a Set writes through the session's configuration object; in a reachable state no other slot holds that
   object, so running and startup do not change *)
Theorem C13_set_invisible :
  forall var reg g r shared ops id p v vf st' res, fixed var -> forallb inv_ok ops = true ->
  let st := run var reg g (init_state_gen r shared) ops in
  do_set var reg st id p v vf = (st', res) -> running st' = running st /\ startup st' = startup st.
Proof.
  intros var reg g r shared ops id p v vf st' res HV HP st H.
  eapply inv_set in H; [apply H | auto | apply inv_run; auto; apply inv_init].
Qed.
Print Assumptions C13_set_invisible.

(* SINGLE LOCK / NO SHARING.  In every reachable state there is at most one candidate session, it is the
   lock owner, without a session the lock is free, and the session's object is neither running nor startup. *)
Theorem C13_single_lock :
  forall var reg g r shared ops, fixed var -> forallb inv_ok ops = true ->
  let st := run var reg g (init_state_gen r shared) ops in
  (forall s1 s2, In s1 (sessions st) -> In s2 (sessions st) -> s1 = s2) /\
  (forall s, In s (sessions st) -> lock st = Some (s_id s)) /\
  (sessions st = [] -> lock st = None) /\
  (forall s, In s (sessions st) -> s_oid s <> running_oid st /\ s_oid s <> startup_oid st).
Proof. intros. apply single_lock, inv_run; auto. apply inv_init. Qed.
Print Assumptions C13_single_lock.

Theorem C13_create_refused :
  forall st o, lock (expire st) = Some o -> do_create st = (expire st, RLocked).
Proof. exact create_refused. Qed.
Print Assumptions C13_create_refused.
(* a granted session is a fresh object holding a copy of running, with no changes *)
Theorem C13_create_granted :
  forall st st' id, do_create st = (st', RId id) ->
  lock (expire st) = None /\ lock st' = Some id /\ id = (next_id st + 1)%N /\
  exists s, In s (sessions st') /\ s_id s = id /\ s_cand s = running st /\ s_changes s = [] /\
            s_oid s = (next_oid st + 1)%N.
Proof. exact create_granted. Qed.
Print Assumptions C13_create_granted.

(* VALIDATED.  In ANY state and for every variant — after failed commits, after LoadConfig replaced the
   candidate, during start-up — a Commit that returns ok has evaluated the pre-commit validation (MSS-clamp
   parent MTU, no two subscriber-group ranges claiming one (S-VLAN, C-VLAN)) on exactly the candidate it
   publishes.  (There is no "already validated" state in the manager.) *)
Theorem C13_commit_validates :
  forall var reg g st id f st' evs,
  do_commit var reg g st id f = (st', ROk, evs) ->
  exists s, find_session (sessions (expire st)) id = Some s /\ precommit_ok g (s_cand s) = true /\
            running st' = s_cand s.
Proof. exact commit_validates. Qed.
Print Assumptions C13_commit_validates.

(* START-UP.  In the variants with [v_boot_atomic] (HEAD since ce2c6ad), from ANY state: a start-up
   (LoadStartupConfig + ApplyLoadedConfig) that does not succeed leaves running — contents and object — what it
   was, and a loaded configuration that fails the pre-commit validation is refused before it is published.
   Before ce2c6ad both were false ([C13_boot_refuted]). *)
Theorem C13_boot_atomic :
  forall var reg g st cfg steps em f st' r evs,
  v_boot_atomic var = true -> do_boot var reg g st cfg steps em f = (st', r, evs) -> is_boot_ok r = false ->
  running st' = running st /\ running_oid st' = running_oid st.
Proof. exact boot_atomic. Qed.
Print Assumptions C13_boot_atomic.
Theorem C13_boot_validates :
  forall var reg g st cfg steps em f st' r evs,
  v_boot_atomic var = true -> do_boot var reg g st cfg steps em f = (st', r, evs) ->
  precommit_ok g cfg = false -> r = RPrecommit /\ running st' = running st.
Proof. exact boot_validates. Qed.
Print Assumptions C13_boot_validates.

(* ADMINISTRATIVE METHODS.  From ANY state, exactly what the three exported methods that are no session
   operations do: SaveStartup makes startup a copy of running and writes the scrubbed file (or fails leaving the
   file); ResetForRecovery empties running and drops sessions and lock, nothing persisted changes; ReloadFRR
   touches the daemon only.  None of them needs or releases a session. *)
Theorem C13_admin_effects :
  forall g st,
  (forall fl, let st' := fst (do_save_startup g st fl) in
     running st' = running st /\ startup st' = running st /\ sessions st' = sessions st /\ lock st' = lock st /\
     frr st' = frr st /\ vfiles st' = vfiles st /\ vmem st' = vmem st /\
     sfile st' = (if fl then sfile st else Some (scrub g (running st))) /\
     snd (do_save_startup g st fl) = (if fl then RSaveFail else ROk)) /\
  (let st' := do_reset st in
     running st' = empty_store /\ sessions st' = [] /\ lock st' = None /\ startup st' = startup st /\
     sfile st' = sfile st /\ frr st' = frr st /\ vfiles st' = vfiles st /\ vmem st' = vmem st /\ next_id st' = next_id st) /\
  (forall k, let '(st', r, evs) := do_reload_frr st k in
     persisted st' = persisted st /\ sessions st' = sessions st /\ lock st' = lock st /\
     (frr st' = frr st \/ frr st' = Some (running st)) /\ (r = ROk -> frr st' = Some (running st))).
Proof. exact admin_effects. Qed.
Print Assumptions C13_admin_effects.

(* IDLE EXPIRY (conf.go:817-832).  Every API call first expires sessions idle for 15 min or longer.  In every
   reachable state: expiry touches no datastore and not the daemon; sessions that are not idle leave the
   whole state unchanged; an idle session disappears together with its lock, the next Create is granted and
   every call naming the expired session is refused. *)
Theorem C13_idle_expiry :
  forall var reg g r shared ops, fixed var -> forallb inv_ok ops = true ->
  let st := run var reg g (init_state_gen r shared) ops in
  (persisted (expire st) = persisted st /\ frr (expire st) = frr st) /\
  ((forall s, In s (sessions st) -> (s_idle s <? idle_limit)%N = true) -> expire st = st) /\
  (forall s, In s (sessions st) -> (s_idle s <? idle_limit)%N = false ->
     sessions (expire st) = [] /\ lock (expire st) = None /\
     snd (do_create st) = RId (next_id st + 1)%N /\
     forall id, (forall p v vf, do_set var reg st id p v vf = (expire st, RNoSession)) /\
                (forall f, do_commit var reg g st id f = (expire st, RNoSession, [])) /\
                do_close st id = (expire st, RNoSession) /\ do_delete st id = (expire st, RNoSession)).
Proof.
  intros var reg g r shared ops HV HP st. assert (HI : Inv st) by (apply inv_run; auto; apply inv_init).
  split; [apply expire_persisted|]. split; [apply expire_alive|].
  intros s Hin Ha. destruct (expire_idle _ _ HI Hin Ha) as [A B].
  repeat split; auto.
  - eapply expired_create; eauto.
  - eapply expired_refused; eauto.
  - eapply expired_refused; eauto.
  - eapply (expired_refused var reg g); eauto.
  - eapply (expired_refused var reg g); eauto.
Qed.
Print Assumptions C13_idle_expiry.
Theorem C13_set_touches :
  forall var reg st id p v vf st' r,
  do_set var reg st id p v vf = (st', r) -> r <> RNoSession ->
  forall s, In s (sessions st') -> s_id s = id -> s_idle s = 0%N.
Proof. exact set_touches. Qed.
Print Assumptions C13_set_touches.

(* ---------------------------------------------------------------- witnesses *)
(* registry: 0 = a.<*>.m (int leaf under a map entry), 1 = b.e (bool leaf under a pointer, reload) *)
Definition ex_reg : registry :=
  [ {| h_pat := [PLit 1; PWild; PLit 2]; h_kind := KInt; h_conts := [1; 2]%nat; h_deps := []; h_frr := false; h_typed := false |};
    {| h_pat := [PLit 5; PLit 6]; h_kind := KBool; h_conts := [1]%nat; h_deps := []; h_frr := true; h_typed := false |} ]%N.
Definition ex_p : path := [1; 3; 2]%N.          (* a.x.m *)
Definition ex_q : path := [1; 4; 2]%N.          (* a.y.m *)
Definition ex_b : path := [5; 6]%N.             (* b.e   *)
Definition ex_ops : list op :=
  [OCreate; OSet 1 ex_p (VInt 1500) false; OSet 1 ex_b (VBool true) false].
Definition f_with (k kr : nat) (t : bool) (r : nat) (s v : bool) : faults :=
  {| f_apply := k; f_rollback := kr; f_test := t; f_reload := r; f_restore := false; f_startup := s; f_version := v |}.
Definition f_down (r : nat) (s : bool) : faults :=      (* the daemon is down: the restoring reload fails too *)
  {| f_apply := 0; f_rollback := 0; f_test := false; f_reload := r; f_restore := true; f_startup := s; f_version := false |}.
Definition ex_mss : guard :=
  {| g_mss := Some ([1;3], ex_p, 1512%Z)%N; g_sv := 7%N; g_cv := 8%N; g_hidden := []; g_sa := 9%N |}.
Definition st_of (var : variant) := run var ex_reg no_guard (init_state empty_store) ex_ops.

(* non-vacuity of C13_atomic for HEAD: every failure point is reachable and rolls back something — also
   when the first Rollback call itself fails, the second is still made *)
Example C13_atomic_nonvacuous :
  let st := st_of Repaired in
  snd (fst (do_commit Repaired ex_reg no_guard st 1 (f_with 2 0 false 0 false false))) = RApplyFail /\
  snd (fst (do_commit Repaired ex_reg no_guard st 1 (f_with 0 0 true 0 false false))) = RFrrTest /\
  snd (fst (do_commit Repaired ex_reg no_guard st 1 (f_with 0 0 false 1 false false))) = RFrrReload /\
  snd (fst (do_commit Repaired ex_reg no_guard st 1 (f_with 0 0 false 0 true false))) = RStartupSave /\
  snd (do_commit Repaired ex_reg no_guard st 1 (f_with 0 1 false 0 true false)) =
    [EApply ex_p (VInt 1500) true; EApply ex_b (VBool true) true; EFrrTest; EFrrReload; EFrrReload;
     ERollback ex_b (VBool true) false; ERollback ex_p (VInt 1500) true] /\
  frr (fst (fst (do_commit Repaired ex_reg no_guard st 1 (f_with 0 0 false 0 true false)))) = Some (running st) /\
  snd (fst (do_commit Repaired ex_reg ex_mss st 1 no_faults)) = RPrecommit.
Proof. vm_compute. repeat split. Qed.
Print Assumptions C13_atomic_nonvacuous.

(* non-vacuity of C13_frame / C13_isolation: a commit succeeds, changes running and loads the daemon *)
Example C13_frame_nonvacuous :
  let st := st_of Repaired in
  let '(st', r, evs) := do_commit Repaired ex_reg no_guard st 1 (f_with 0 0 false 0 false true) in
  r = ROk /\ get_leaf (running st') ex_p = Some (SInt 1500) /\ get_leaf (running st) ex_p = None /\
  sessions st' = [] /\ lock st' = None /\ length (vmem st') = 1%nat /\ vfiles st' = [] /\
  frr st' = Some (running st') /\ running_oid st' = 3%N /\ startup_oid st' = 4%N.
Proof. vm_compute. repeat split. Qed.
Print Assumptions C13_frame_nonvacuous.

(* a whole-entry Set: the old leaf a.x.m and the old sub-container a.x.k are gone, the new field a.x.n is
   there, a.y.m is untouched; committed, the frame is exactly that *)
Definition ex_oreg : registry :=
  ex_reg ++ [ {| h_pat := [PLit 1; PWild]; h_kind := KObj; h_conts := [1; 2]%nat; h_deps := []; h_frr := false; h_typed := false |} ]%N.
Example C13_obj_set_nonvacuous :
  let r0 := {| leaves := [([1;3;2], SInt 1500); ([1;4;2], SInt 9000); ([1;3;7;8], SBool true)];
               conts := [[1]; [1;3]; [1;4]; [1;3;7]] |}%N in
  let st := run Repaired ex_oreg no_guard (init_state r0)
              [OCreate; OSet 1 [1;3]%N (VObj [(9%N, SStr [97]%N)]) false] in
  let '(st', r, _) := do_commit Repaired ex_oreg no_guard st 1 no_faults in
  r = ROk /\ get_leaf (running st') [1;3;2]%N = None /\ get_leaf (running st') [1;3;7;8]%N = None /\
  has_cont (running st') [1;3;7]%N = false /\ has_cont (running st') [1;3]%N = true /\
  get_leaf (running st') [1;3;9]%N = Some (SStr [97]%N) /\ get_leaf (running st') [1;4;2]%N = Some (SInt 9000).
Proof. vm_compute. repeat split. Qed.
Print Assumptions C13_obj_set_nonvacuous.

Example C13_idle_expiry_nonvacuous :
  let st14 := run Repaired ex_reg no_guard (init_state empty_store) [OCreate; OTick 14] in
  let st15 := run Repaired ex_reg no_guard (init_state empty_store) [OCreate; OTick 14; OTick 1] in
  expire st14 = st14 /\ snd (do_create st14) = RLocked /\
  sessions (expire st15) = [] /\ snd (do_create st15) = RId 2 /\
  snd (do_set Repaired ex_reg st15 1 ex_p (VInt 1) false) = RNoSession.
Proof. vm_compute. repeat split. Qed.
Print Assumptions C13_idle_expiry_nonvacuous.

(* ---------------------------------------------------------------- historical witnesses (all fixed in /repo) *)
(* before 4214320 *)
(* the reload fails after the daemon took the candidate and the restoring reload fails too: the tree before 4214320 returned the
   plain reload error although the daemon still runs the candidate; [Repaired] returns the distinguished error *)
Theorem C13_restore_unreported_refuted :
  exists reg g ops id f,
  let st := run PreAudit2 reg g (init_state empty_store) ops in
  let '(st', r, evs) := do_commit PreAudit2 reg g st id f in
  let '(st2, r2, _) := do_commit Repaired reg g (run Repaired reg g (init_state empty_store) ops) id f in
  r = RFrrReload /\ persisted st' = persisted st /\ frr st' <> frr st /\ frr st' <> Some (running st) /\
  r2 = RFrrReloadU /\ frr st2 = frr st'.
Proof.
  exists ex_reg, no_guard, ex_ops, 1%N, (f_down 2 false). vm_compute.
  repeat split; try discriminate.
Qed.
Print Assumptions C13_restore_unreported_refuted.

(* before ce2c6ad — a start-up whose commit fails (here: the second Apply) left the loaded configuration published as
   running; with colliding subscriber groups it is published although the validation rejects it *)
Definition ex_cfg : store := {| leaves := [(ex_p, SInt 1500); (ex_b, SBool true)]; conts := [[1]; [1; 3]; [5]]%N |}.
Definition ex_col : store :=
  {| leaves := [([10; 11; 7], SStr [49]); ([10; 12; 7], SStr [49])]; conts := [[10]; [10; 11]; [10; 12]] |}%N.
Definition ex_colg : guard := {| g_mss := None; g_sv := 7%N; g_cv := 8%N; g_hidden := []; g_sa := 9%N |}.
Theorem C13_boot_refuted :
  (let '(st', r, _) := do_boot PreAudit2 ex_reg no_guard (init_state empty_store) ex_cfg []
                         [(ex_p, VInt 1500); (ex_b, VBool true)] (f_with 2 0 false 0 false false) in
   r = RApplyFail /\ get_leaf (running st') ex_p = Some (SInt 1500)) /\
  (let '(st', r, _) := do_boot PreAudit2 ex_reg ex_colg (init_state empty_store) ex_col [] [] no_faults in
   precommit_ok ex_colg ex_col = false /\ r <> ROk /\ running st' = ex_col) /\
  (let '(st', r, _) := do_boot Repaired ex_reg ex_colg (init_state empty_store) ex_col [] [] no_faults in
   r = RPrecommit /\ running st' = empty_store).
Proof. vm_compute. repeat split; discriminate. Qed.
Print Assumptions C13_boot_refuted.

(* before e792c74 *)
(* the reload fails after the daemon has taken the candidate (f_reload = 2): the tree before e792c74 rolled the handlers back and
   leaves the datastores alone, but the daemon stays on a configuration that is neither what it had nor the
   running one *)
Theorem C13_daemon_refuted :
  exists reg g ops id f st' r evs,
  let st := run FrrDefect reg g (init_state empty_store) ops in
  do_commit FrrDefect reg g st id f = (st', r, evs) /\ r = RFrrReload /\ persisted st' = persisted st /\
  frr st' <> frr st /\ frr st' <> Some (running st).
Proof.
  exists ex_reg, no_guard, ex_ops, 1%N, (f_with 0 0 false 2 false false).
  eexists; eexists; eexists. cbv zeta. split; [vm_compute; reflexivity|].
  split; [reflexivity|]. split; [reflexivity|]. split.
  - vm_compute. discriminate.
  - intros E. vm_compute in E. discriminate.
Qed.
Print Assumptions C13_daemon_refuted.

(* before 1761ed1 — startup-file write fails: Commit returns an error although running and startup were
   replaced, and nothing is rolled back *)
Theorem C13_atomic_refuted :
  exists reg g ops id f st' r evs,
  let st := run Defective reg g (init_state empty_store) ops in
  do_commit Defective reg g st id f = (st', r, evs) /\ r <> ROk /\
  running st' <> running st /\ startup st' <> startup st /\ rolled evs <> rev (applied_ok evs).
Proof.
  exists ex_reg, no_guard, ex_ops, 1%N, (f_with 0 0 false 0 true false).
  eexists; eexists; eexists. cbv zeta. split; [vm_compute; reflexivity|].
  split; [discriminate|]. split; [|split].
  - intros E. apply (f_equal (fun s => get_leaf s ex_p)) in E. vm_compute in E. discriminate.
  - intros E. apply (f_equal (fun s => get_leaf s ex_p)) in E. vm_compute in E. discriminate.
  - vm_compute. discriminate.
Qed.
Print Assumptions C13_atomic_refuted.

(* ... and after that failed commit the session's object IS the running object (same object id — no flag):
   a Set, which is not a commit, changes the running configuration *)
Theorem C13_isolation_refuted :
  exists reg g ops id p v st' res,
  let st := run Defective reg g (init_state empty_store) ops in
  (exists s, In s (sessions st) /\ s_oid s = running_oid st) /\
  do_set Defective reg st id p v false = (st', res) /\ res = ROk /\ running st' <> running st.
Proof.
  exists ex_reg, no_guard, (ex_ops ++ [OCommit 1 (f_with 0 0 false 0 true false)]), 1%N, ex_p, (VInt 9000).
  eexists; eexists. cbv zeta. split.
  - vm_compute. eexists. split; [left; reflexivity|reflexivity].
  - split; [vm_compute; reflexivity|]. split; [reflexivity|].
    intros E. apply (f_equal (fun s => get_leaf s ex_p)) in E. vm_compute in E. discriminate.
Qed.
Print Assumptions C13_isolation_refuted.

(* before 61c97e1 — a Set that fails in convertValue has already created containers; the next successful
   commit publishes a container that is not a prefix of any path set in the session *)
Theorem C13_frame_refuted :
  exists reg g ops id f st' evs c,
  let st := run Defective reg g (init_state empty_store) ops in
  do_commit Defective reg g st id f = (st', ROk, evs) /\
  has_cont (running st') c = true /\ has_cont (running st) c = false /\
  forall s, find_session (sessions (expire st)) id = Some s ->
  forall p, In p (map c_path (s_changes s)) -> ~ is_prefix c p.
Proof.
  exists ex_reg, no_guard,
    [OCreate; OSet 1 ex_q (VStr [97]%N) false; OSet 1 ex_p (VInt 1500) false], 1%N, no_faults.
  eexists; eexists; exists [1; 4]%N. cbv zeta. split; [vm_compute; reflexivity|].
  split; [reflexivity|]. split; [reflexivity|].
  intros s Hs p Hp [n Hn]. vm_compute in Hs. inversion Hs; subst s; clear Hs.
  simpl in Hp. destruct Hp as [Hp|[]]. subst p.
  destruct n as [|[|[|[|n]]]]; vm_compute in Hn; discriminate.
Qed.
Print Assumptions C13_frame_refuted.

(* ---------------------------------------------------------------- concurrency *)
From OV Require C13.Atomic C13.Linearizable.

(* LINEARIZABLE.  Goroutines run arbitrary programs of manager calls (Create, Close, Set, Delete, Commit,
   Rollback-to-version under cd.mu.Lock; GetRunning, GetStartup, ListVersions under cd.mu.RLock); each
   call is split into invoke / acquire / read / compute-on-a-local-copy+store / unlock / respond and other
   goroutines are scheduled between any two of these.  Every history of a quiescent configuration has a
   sequential reordering that (a) looks the same to every goroutine, (b) is legal for the sequential
   model [Model.step] that all the theorems above are about, (c) respects real-time order.  For every
   variant, registry, guard and initial state.  Assumption about Go: sync.RWMutex excludes as
   [Atomic.can_acquire] says; which methods hold the lock throughout is listed in Linearizable.v. *)
Theorem C13_linearizable :
  forall var reg g st0 progs c,
  Linearizable.m_reach var reg g st0 progs c -> Atomic.quiescent c ->
  Linearizable.mgr_linearizable var reg g st0 (Atomic.c_hist c).
Proof. exact Linearizable.mgr_ops_linearizable. Qed.
Print Assumptions C13_linearizable.

Example C13_linearizable_nonvacuous :
  exists c, Linearizable.m_reach Repaired Linearizable.lx_reg no_guard Linearizable.lx_st0 Linearizable.lx_progs c /\
            Atomic.quiescent c /\ length (Atomic.c_hist c) = 10%nat /\
            get_leaf (running (Atomic.c_sh c tt)) Linearizable.lx_p = Some (SInt 1500).
Proof.
  destruct Linearizable.lx_reachable as [c [R [Q [r0 [r2 [s1 [l [H [_ [_ [_ E]]]]]]]]]]].
  exists c. repeat split; auto. rewrite H. reflexivity.
Qed.
Print Assumptions C13_linearizable_nonvacuous.
