From OV Require Import Common.Base C13.Model C13.Proofs.
Theorem C13_tick_running : forall st d, running (do_tick st d) = running st.
Proof. exact tick_running. Qed.
Print Assumptions C13_tick_running.
