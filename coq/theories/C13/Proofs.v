(* C13/Proofs.v — lemmas and invariants for the configuration-manager model *)
From OV Require Import Common.Base C13.Model.
From Coq Require Import ZifyBool ZifyNat ZifyN.

(* ------------------------------------------------------------------ basic facts *)
Lemma path_eqb_refl p : path_eqb p p = true.
Proof. induction p; simpl; auto. rewrite N.eqb_refl; auto. Qed.
Lemma path_eqb_eq p q : path_eqb p q = true <-> p = q.
Proof.
  revert q; induction p as [|x p IH]; destruct q as [|y q]; simpl; split; intros H; try congruence; auto.
  - apply andb_true_iff in H as [H1 H2]. apply N.eqb_eq in H1. apply IH in H2. congruence.
  - inversion H; subst. rewrite N.eqb_refl. simpl. apply IH; auto.
Qed.
Lemma path_eqb_neq p q : path_eqb p q = false <-> p <> q.
Proof.
  split; intros H.
  - intros E. apply path_eqb_eq in E. congruence.
  - destruct (path_eqb p q) eqn:E; auto. apply path_eqb_eq in E. contradiction.
Qed.

Lemma get_remove_same l p : get_leaf_l (remove_leaf_l l p) p = None.
Proof.
  induction l as [|[q v] l IH]; simpl; auto.
  destruct (path_eqb q p) eqn:E; auto. simpl. rewrite E. auto.
Qed.
Lemma get_remove_other l p q : p <> q -> get_leaf_l (remove_leaf_l l p) q = get_leaf_l l q.
Proof.
  intros Hn. induction l as [|[r v] l IH]; simpl; auto.
  destruct (path_eqb r p) eqn:E.
  - apply path_eqb_eq in E; subst r. apply path_eqb_neq in Hn. rewrite Hn. auto.
  - simpl. destruct (path_eqb r q); auto.
Qed.
Lemma get_set_same s p o : get_leaf (set_leaf s p o) p = o.
Proof.
  unfold get_leaf, set_leaf; simpl. destruct o; simpl.
  - rewrite path_eqb_refl; auto.
  - apply get_remove_same.
Qed.
Lemma get_set_other s p o q : p <> q -> get_leaf (set_leaf s p o) q = get_leaf s q.
Proof.
  intros Hn. unfold get_leaf, set_leaf; simpl. destruct o; simpl.
  - apply path_eqb_neq in Hn as Hn'. rewrite Hn'. apply get_remove_other; auto.
  - apply get_remove_other; auto.
Qed.
Lemma conts_set_leaf s p o : conts (set_leaf s p o) = conts s.
Proof. reflexivity. Qed.
Lemma has_cont_set_leaf s p o c : has_cont (set_leaf s p o) c = has_cont s c.
Proof. reflexivity. Qed.

Lemma leaves_add_cont s c : leaves (add_cont s c) = leaves s.
Proof. unfold add_cont. destruct (has_cont s c); reflexivity. Qed.
Lemma has_cont_add_cont s c d :
  has_cont (add_cont s c) d = has_cont s d || path_eqb d c.
Proof.
  unfold add_cont. destruct (has_cont s c) eqn:E.
  - destruct (path_eqb d c) eqn:F; [|rewrite orb_false_r; auto].
    apply path_eqb_eq in F; subst. rewrite E; auto.
  - unfold has_cont at 1; simpl. rewrite orb_comm. reflexivity.
Qed.
Lemma leaves_add_conts ns : forall s p, leaves (add_conts s p ns) = leaves s.
Proof.
  unfold add_conts. induction ns as [|n ns IH]; intros; simpl; auto.
  rewrite IH. apply leaves_add_cont.
Qed.
Lemma get_leaf_add_conts s p ns q : get_leaf (add_conts s p ns) q = get_leaf s q.
Proof. unfold get_leaf. rewrite leaves_add_conts; auto. Qed.
Lemma has_cont_add_conts ns : forall s p d,
  has_cont (add_conts s p ns) d = has_cont s d || existsb (fun n => path_eqb d (firstn n p)) ns.
Proof.
  unfold add_conts. induction ns as [|n ns IH]; intros; simpl.
  - rewrite orb_false_r; auto.
  - rewrite IH, has_cont_add_cont. rewrite orb_assoc. reflexivity.
Qed.

(* ------------------------------------------------------------------ Set on a store *)
Definition is_prefix (c p : path) : Prop := exists n, c = firstn n p.

Lemma set_store_leaf_frame var s h p v s' ok q :
  set_store var s h p v = (s', ok) -> q <> p -> get_leaf s' q = get_leaf s q.
Proof.
  unfold set_store. intros H Hn.
  assert (G : forall k, (let s1 := add_conts s p (h_conts h) in
                 match convert k v with
                 | Some o => (set_leaf s1 p o, true)
                 | None => (if v_set_atomic var then s else s1, false)
                 end) = (s', ok) -> get_leaf s' q = get_leaf s q).
  { intros k. cbv zeta. destruct (convert k v) as [o|]; intros E; inversion E; subst.
    - rewrite get_set_other by congruence. apply get_leaf_add_conts.
    - destruct (v_set_atomic var); auto. apply get_leaf_add_conts. }
  destruct (h_kind h); try (apply G in H; exact H).
  - inversion H; subst; reflexivity.
  - destruct (forallb _ _); [|inversion H; subst; reflexivity].
    destruct (convert KAny v); inversion H; subst; auto. apply get_set_other; congruence.
Qed.
Lemma set_store_failed_atomic s h p v s' :
  set_store Repaired s h p v = (s', false) -> s' = s.
Proof.
  unfold set_store.
  assert (G : forall k, (let s1 := add_conts s p (h_conts h) in
                 match convert k v with
                 | Some o => (set_leaf s1 p o, true)
                 | None => (if v_set_atomic Repaired then s else s1, false)
                 end) = (s', false) -> s' = s).
  { intros k. cbv zeta. destruct (convert k v); intros E; inversion E; subst; reflexivity. }
  destruct (h_kind h); intros H; try (apply G in H; exact H).
  - inversion H.
  - destruct (forallb _ _); [|inversion H; subst; reflexivity].
    destruct (convert KAny v); inversion H; subst; auto.
Qed.
Lemma set_store_conts_mono var s h p v s' ok c :
  set_store var s h p v = (s', ok) -> has_cont s c = true -> has_cont s' c = true.
Proof.
  unfold set_store. intros H Hc.
  assert (G : forall k, (let s1 := add_conts s p (h_conts h) in
                 match convert k v with
                 | Some o => (set_leaf s1 p o, true)
                 | None => (if v_set_atomic var then s else s1, false)
                 end) = (s', ok) -> has_cont s' c = true).
  { intros k. cbv zeta. destruct (convert k v); intros E; inversion E; subst.
    - rewrite has_cont_set_leaf, has_cont_add_conts, Hc; reflexivity.
    - destruct (v_set_atomic var); auto. rewrite has_cont_add_conts, Hc; reflexivity. }
  destruct (h_kind h); try (apply G in H; exact H).
  - inversion H; subst; assumption.
  - destruct (forallb _ _); [|inversion H; subst; assumption].
    destruct (convert KAny v); inversion H; subst; auto.
Qed.
Lemma set_store_conts_new s h p v s' c :
  set_store Repaired s h p v = (s', true) -> has_cont s' c = true -> has_cont s c = true \/ is_prefix c p.
Proof.
  unfold set_store. intros H Hc.
  assert (G : forall k, (let s1 := add_conts s p (h_conts h) in
                 match convert k v with
                 | Some o => (set_leaf s1 p o, true)
                 | None => (if v_set_atomic Repaired then s else s1, false)
                 end) = (s', true) -> has_cont s c = true \/ is_prefix c p).
  { intros k. cbv zeta. destruct (convert k v); intros E; inversion E; subst.
    rewrite has_cont_set_leaf, has_cont_add_conts in Hc. apply orb_true_iff in Hc as [H1|H1]; auto.
    right. apply existsb_exists in H1 as [n [_ Hn]]. apply path_eqb_eq in Hn. exists n; auto. }
  destruct (h_kind h); try (apply G in H; exact H).
  - inversion H; subst; auto.
  - destruct (forallb _ _); [|inversion H].
    destruct (convert KAny v); inversion H; subst; auto.
Qed.

(* ------------------------------------------------------------------ events *)
Definition ev_applied (e : ev) : list (path * value) :=
  match e with EApply p v true => [(p, v)] | _ => [] end.
Definition ev_rolled (e : ev) : list (path * value) :=
  match e with ERollback p v => [(p, v)] | _ => [] end.
Definition applied_ok (evs : list ev) : list (path * value) := flat_map ev_applied evs.
Definition rolled (evs : list ev) : list (path * value) := flat_map ev_rolled evs.
Definition ckey (c : change) : path * value := (c_path c, c_new c).

Lemma applied_ok_app a b : applied_ok (a ++ b) = applied_ok a ++ applied_ok b.
Proof. apply flat_map_app. Qed.
Lemma rolled_app a b : rolled (a ++ b) = rolled a ++ rolled b.
Proof. apply flat_map_app. Qed.
Lemma rollback_evs_rolled l : rolled (rollback_evs l) = rev (map ckey l).
Proof.
  unfold rollback_evs. rewrite <- map_rev. induction (rev l); simpl; auto. f_equal; auto.
Qed.
Lemma rollback_evs_applied l : applied_ok (rollback_evs l) = [].
Proof. unfold rollback_evs. induction (rev l); simpl; auto. Qed.

Lemma apply_loop_spec reg chs : forall n k applied evs frr applied' failed evs' frr',
  apply_loop reg chs n k applied evs frr = (applied', failed, evs', frr') ->
  applied_ok evs = map ckey applied -> rolled evs = [] ->
  applied_ok evs' = map ckey applied' /\ rolled evs' = [].
Proof.
  induction chs as [|c chs IH]; intros n k applied evs frr applied' failed evs' frr' H Ha Hr;
    cbn [apply_loop] in H.
  - inversion H; subst; auto.
  - destruct (Nat.eqb (S n) k).
    + inversion H; subst. rewrite applied_ok_app, rolled_app, Hr. simpl. rewrite app_nil_r. auto.
    + eapply IH in H; eauto.
      * rewrite applied_ok_app, map_app, Ha. reflexivity.
      * rewrite rolled_app, Hr. reflexivity.
Qed.

(* the trace of a commit that fails: every successful Apply is rolled back, in reverse order *)
Definition trace_undone (evs : list ev) : Prop := rolled evs = rev (applied_ok evs).
(* the trace of a commit that succeeds: nothing is rolled back *)
Definition trace_kept (evs : list ev) : Prop := rolled evs = [].

(* ------------------------------------------------------------------ a failed commit *)
Definition touch_state (st : state) (id : N) : state :=
  match find_session (sessions st) id with
  | None => st
  | Some s => with_sessions st (put_session (sessions st) (touch s)) (lock st)
  end.

Definition commit_success (reg : registry) (st : state) (id : N) (f : faults) (st' : state) : Prop :=
  exists s, find_session (sessions (expire st)) id = Some s /\ s_changes s <> [] /\
    running st' = s_cand s /\ startup st' = s_cand s /\ sfile st' = Some (s_cand s) /\
    sessions st' = remove_session (sessions (expire st)) id /\
    lock st' = release (lock (expire st)) id /\ next_id st' = next_id st /\
    (vmem st' = vmem st \/ exists v, vmem st' = vmem st ++ [v]) /\
    (vfiles st' = vfiles st \/ exists v, vfiles st' = vfiles st ++ [v]).

Lemma sort_changes_nil reg run chs l : sort_changes reg run chs = inr l -> chs = [] -> l = [].
Proof. intros H E; subst. simpl in H. inversion H; auto. Qed.
Lemma sort_changes_nonempty reg run chs x l : sort_changes reg run chs = inr (x :: l) -> chs <> [].
Proof. intros H E. apply sort_changes_nil with (l := x :: l) in H; auto. discriminate. Qed.

Lemma expire_fields st :
  running (expire st) = running st /\ startup (expire st) = startup st /\ sfile (expire st) = sfile st /\
  next_id (expire st) = next_id st /\ vmem (expire st) = vmem st /\ vfiles (expire st) = vfiles st.
Proof. unfold expire; simpl; repeat split. Qed.

Lemma commit_repaired_cases reg g st id f st' r evs :
  do_commit Repaired reg g st id f = (st', r, evs) ->
  (r <> ROk /\ st' = touch_state (expire st) id /\ trace_undone evs) \/
  (r = ROk /\ commit_success reg st id f st' /\ trace_kept evs).
Proof.
  unfold do_commit, touch_state.
  destruct (find_session (sessions (expire st)) id) as [s0|] eqn:Ef.
  2:{ intros H; inversion H; subst. left. repeat split; try discriminate. }
  set (st1 := with_sessions (expire st) (put_session (sessions (expire st)) (touch s0)) (lock (expire st))).
  destruct (sort_changes reg (running (expire st)) (s_changes (touch s0))) as [e|sorted] eqn:Es.
  { destruct e; intros H; inversion H; subst; left; repeat split; discriminate. }
  destruct sorted as [|c0 sorted].
  { intros H; inversion H; subst; left; repeat split; discriminate. }
  apply sort_changes_nonempty in Es. simpl in Es.
  destruct (negb (precommit_ok g (s_cand (touch s0)))).
  { intros H; inversion H; subst; left; repeat split; discriminate. }
  destruct (apply_loop reg (c0 :: sorted) 0 (f_apply f) [] [] false) as [[[applied failed] evs0] frr] eqn:Ea.
  apply apply_loop_spec in Ea as [Hap Hro]; auto.
  assert (U : forall mid, applied_ok mid = [] -> rolled mid = [] ->
              trace_undone (evs0 ++ mid ++ rollback_evs applied)).
  { intros mid M1 M2. unfold trace_undone.
    rewrite !rolled_app, !applied_ok_app, Hro, M1, M2, rollback_evs_applied, rollback_evs_rolled, Hap.
    simpl. rewrite app_nil_r. reflexivity. }
  destruct failed.
  { intros H; inversion H; subst; left; repeat split; try discriminate. apply (U []); auto. }
  destruct (frr && f_test f).
  { intros H; inversion H; subst; left; repeat split; try discriminate. apply (U [EFrrTest]); auto. }
  destruct (frr && f_reload f).
  { intros H; inversion H; subst; left; repeat split; try discriminate. apply (U [EFrrTest; EFrrReload]); auto. }
  assert (K : trace_kept (if frr then evs0 ++ [EFrrTest; EFrrReload] else evs0)).
  { unfold trace_kept. destruct frr; auto. rewrite rolled_app, Hro. reflexivity. }
  cbn [Repaired v_persist_first negb].
  destruct (f_startup f).
  { intros H; inversion H; subst; left; repeat split; try discriminate.
    destruct frr.
    - rewrite <- !app_assoc. apply (U ([EFrrTest; EFrrReload] ++ [EFrrReload])); auto.
    - apply (U []); auto. }
  pose proof (expire_fields st) as [E1 [E2 [E3 [E4 [E5 E6]]]]].
  destruct (version_changes reg (s_changes (touch s0))) eqn:Ev.
  - intros H; inversion H; subst; right. split; auto. split; auto.
    exists s0. simpl. repeat split; auto.
  - intros H; inversion H; subst; right. split; auto. split; auto.
    exists s0. simpl. repeat split; auto.
    + right. eexists; reflexivity.
    + destruct (f_version f); [left; auto | right; eexists; reflexivity].
Qed.

(* the same for every variant, i.e. also for the code as it is today, as long as the failure is not one
   of the two persistence failures *)
Lemma commit_early_failure var reg g st id f st' r evs :
  do_commit var reg g st id f = (st', r, evs) ->
  r <> ROk -> r <> RStartupSave -> r <> RVersionSave ->
  st' = touch_state (expire st) id /\ trace_undone evs.
Proof.
  unfold do_commit, touch_state.
  destruct (find_session (sessions (expire st)) id) as [s0|] eqn:Ef.
  2:{ intros H; inversion H; subst. repeat split. }
  destruct (sort_changes reg (running (expire st)) (s_changes (touch s0))) as [e|sorted] eqn:Es.
  { destruct e; intros H; inversion H; subst; repeat split. }
  destruct sorted as [|c0 sorted].
  { intros H; inversion H; subst; repeat split. }
  destruct (negb (precommit_ok g (s_cand (touch s0)))).
  { intros H; inversion H; subst; repeat split. }
  destruct (apply_loop reg (c0 :: sorted) 0 (f_apply f) [] [] false) as [[[applied failed] evs0] frr] eqn:Ea.
  apply apply_loop_spec in Ea as [Hap Hro]; auto.
  assert (U : forall mid, applied_ok mid = [] -> rolled mid = [] ->
              trace_undone (evs0 ++ mid ++ rollback_evs applied)).
  { intros mid M1 M2. unfold trace_undone.
    rewrite !rolled_app, !applied_ok_app, Hro, M1, M2, rollback_evs_applied, rollback_evs_rolled, Hap.
    simpl. rewrite app_nil_r. reflexivity. }
  destruct failed.
  { intros H; inversion H; subst; split; auto. apply (U []); auto. }
  destruct (frr && f_test f).
  { intros H; inversion H; subst; split; auto. apply (U [EFrrTest]); auto. }
  destruct (frr && f_reload f).
  { intros H; inversion H; subst; split; auto. apply (U [EFrrTest; EFrrReload]); auto. }
  destruct (negb (v_persist_first var)).
  - destruct (f_startup f); [intros H; inversion H; subst; congruence|].
    destruct (version_changes reg (s_changes (touch s0))); [intros H; inversion H; subst; congruence|].
    destruct (f_version f); intros H; inversion H; subst; congruence.
  - destruct (f_startup f); [intros H; inversion H; subst; congruence|].
    destruct (version_changes reg (s_changes (touch s0))); intros H; inversion H; subst; congruence.
Qed.

(* ------------------------------------------------------------------ the invariant *)
Arguments expire : simpl never.
Definition agrees (cand run : store) (chs : list change) : Prop :=
  (forall p, ~ In p (map c_path chs) -> get_leaf cand p = get_leaf run p) /\
  (forall c, has_cont run c = true -> has_cont cand c = true) /\
  (forall c, has_cont cand c = true -> has_cont run c = true \/ exists p, In p (map c_path chs) /\ is_prefix c p).

Definition Inv (st : state) : Prop :=
  (sessions st = [] /\ lock st = None) \/
  (exists s, sessions st = [s] /\ lock st = Some (s_id s) /\ s_alias s = false /\
             agrees (s_cand s) (running st) (s_changes s)).

Lemma agrees_refl r : agrees r r [].
Proof. repeat split; auto. Qed.

Lemma inv_init r : Inv (init_state r).
Proof. left; auto. Qed.

Lemma inv_expire st : Inv st -> Inv (expire st).
Proof.
  intros [[Hs Hl]|[s [Hs [Hl [Ha Hg]]]]].
  - left. unfold expire; simpl. rewrite Hs, Hl. auto.
  - unfold expire, Inv; simpl. rewrite Hs, Hl. simpl. destruct (alive s) eqn:E; simpl.
    + right. exists s. auto.
    + left. rewrite N.eqb_refl. auto.
Qed.

Lemma expire_running st : running (expire st) = running st.
Proof. reflexivity. Qed.

Lemma inv_single st s id : Inv st -> find_session (sessions st) id = Some s ->
  sessions st = [s] /\ lock st = Some (s_id s) /\ s_id s = id /\ s_alias s = false /\
  agrees (s_cand s) (running st) (s_changes s).
Proof.
  intros [[Hs Hl]|[s1 [Hs [Hl [Ha Hg]]]]] Hf.
  - rewrite Hs in Hf. discriminate.
  - rewrite Hs in Hf. simpl in Hf. destruct (N.eqb (s_id s1) id) eqn:E; [|discriminate].
    inversion Hf; subst. apply N.eqb_eq in E. auto.
Qed.

Lemma put_single s s' : s_id s' = s_id s -> put_session [s] s' = [s'].
Proof. intros E. simpl. rewrite E, N.eqb_refl. reflexivity. Qed.
Lemma remove_single s : remove_session [s] (s_id s) = [].
Proof. simpl. rewrite N.eqb_refl. reflexivity. Qed.
Lemma release_own id : release (Some id) id = None.
Proof. simpl. rewrite N.eqb_refl. reflexivity. Qed.

Lemma inv_touch_state st id : Inv st -> Inv (touch_state st id).
Proof.
  intros HI. unfold touch_state. destruct (find_session (sessions st) id) as [s|] eqn:Ef; auto.
  destruct (inv_single _ _ _ HI Ef) as [Hs [Hl [Hid [Ha Hg]]]].
  right. exists (touch s). simpl. rewrite Hs, put_single by reflexivity. auto.
Qed.
Lemma touch_state_persist st id :
  running (touch_state st id) = running st /\ startup (touch_state st id) = startup st /\
  sfile (touch_state st id) = sfile st /\ vmem (touch_state st id) = vmem st /\
  vfiles (touch_state st id) = vfiles st /\ next_id (touch_state st id) = next_id st /\
  lock (touch_state st id) = lock st /\
  map s_id (sessions (touch_state st id)) = map s_id (sessions st).
Proof.
  unfold touch_state. destruct (find_session (sessions st) id); simpl; repeat split; auto.
  unfold put_session. rewrite map_map. apply map_ext_in. intros a _.
  destruct (N.eqb (s_id a) (s_id (touch s))) eqn:E; auto. apply N.eqb_eq in E. simpl in *. auto.
Qed.

Lemma inv_commit reg g st id f st' r evs :
  Inv st -> do_commit Repaired reg g st id f = (st', r, evs) -> Inv st'.
Proof.
  intros HI H. apply commit_repaired_cases in H as [[_ [E _]]|[_ [[s [Ef [_ [_ [_ [_ [Hs [Hl _]]]]]]]] _]]].
  - subst. apply inv_touch_state, inv_expire, HI.
  - apply inv_expire in HI. destruct (inv_single _ _ _ HI Ef) as [Hs1 [Hl1 [Hid _]]].
    left. rewrite Hs, Hl, Hs1, Hl1. subst id. rewrite remove_single, release_own. auto.
Qed.

Lemma inv_create st st' r : Inv st -> do_create st = (st', r) -> Inv st'.
Proof.
  intros HI. apply inv_expire in HI. unfold do_create. cbv zeta.
  destruct (lock (expire st)) eqn:El.
  - intros H; inversion H; subst; auto.
  - destruct HI as [[Hs _]|[s [_ [Hl _]]]]; [|congruence].
    rewrite Hs. intros H; inversion H; subst.
    right. eexists. simpl. split; [reflexivity|]. simpl. repeat split; auto.
Qed.

Lemma has_session_find l id : has_session l id = true -> exists s, find_session l id = Some s.
Proof.
  unfold has_session, find_session. induction l as [|a l IH]; simpl; [discriminate|].
  destruct (N.eqb (s_id a) id); eauto.
Qed.

Lemma inv_close st id st' r : Inv st -> do_close st id = (st', r) -> Inv st'.
Proof.
  intros HI. apply inv_expire in HI. unfold do_close. cbv zeta.
  destruct (has_session (sessions (expire st)) id) eqn:Eh.
  - apply has_session_find in Eh as [s Ef].
    destruct (inv_single _ _ _ HI Ef) as [Hs [Hl [Hid _]]].
    rewrite Hs, Hl. subst id. rewrite remove_single, release_own.
    intros H; inversion H; subst. left. auto.
  - intros H; inversion H; subst; auto.
Qed.

Lemma inv_delete st id st' r : Inv st -> do_delete st id = (st', r) -> Inv st'.
Proof.
  intros HI. apply inv_expire in HI. unfold do_delete.
  destruct (find_session (sessions (expire st)) id) as [s|] eqn:Ef.
  - intros H; inversion H; subst.
    pose proof (inv_touch_state _ id HI) as HT. unfold touch_state in HT. rewrite Ef in HT. exact HT.
  - intros H; inversion H; subst; auto.
Qed.

Lemma inv_tick st d : Inv st -> Inv (do_tick st d).
Proof.
  intros [[Hs Hl]|[s [Hs [Hl [Ha Hg]]]]].
  - left. unfold do_tick; simpl. rewrite Hs; auto.
  - right. unfold do_tick; simpl. rewrite Hs. simpl. eexists; split; [reflexivity|]. simpl. auto.
Qed.

Lemma inv_rollback st v st' r : Inv st -> do_rollback st v = (st', r) -> Inv st'.
Proof.
  intros HI. apply inv_expire in HI. unfold do_rollback.
  destruct (_ || _); intros H; inversion H; subst; auto.
Qed.

Lemma agrees_set cand run chs h p v cand' :
  agrees cand run chs -> set_store Repaired cand h p v = (cand', true) ->
  forall o, agrees cand' run (chs ++ [{| c_path := p; c_old := o; c_new := v |}]).
Proof.
  intros [A1 [A2 A3]] Hs o. repeat split.
  - intros q Hq. rewrite map_app, in_app_iff in Hq. simpl in Hq.
    rewrite (set_store_leaf_frame _ _ _ _ _ _ _ q Hs); [apply A1|]; intuition.
  - intros c Hc. eapply set_store_conts_mono; eauto.
  - intros c Hc. eapply set_store_conts_new in Hc; eauto. destruct Hc as [Hc|Hc].
    + apply A3 in Hc as [Hc|[q [Hq Hp]]]; auto. right. exists q. rewrite map_app, in_app_iff. auto.
    + right. exists p. rewrite map_app, in_app_iff. simpl. auto.
Qed.

Lemma inv_set reg st id p v vf st' r :
  Inv st -> do_set Repaired reg st id p v vf = (st', r) -> Inv st' /\ running st' = running st.
Proof.
  intros HI. apply inv_expire in HI. unfold do_set.
  destruct (find_session (sessions (expire st)) id) as [s|] eqn:Ef.
  2:{ intros H; inversion H; subst; auto. }
  destruct (inv_single _ _ _ HI Ef) as [Hs [Hl [Hid [Ha Hg]]]].
  assert (HT : Inv (with_sessions (expire st) (put_session (sessions (expire st)) (touch s)) (lock (expire st)))).
  { pose proof (inv_touch_state _ id HI) as HT. unfold touch_state in HT. rewrite Ef in HT. exact HT. }
  destruct (get_handler reg p) as [hi|]; [|intros H; inversion H; subst; auto].
  destruct vf; [intros H; inversion H; subst; auto|].
  destruct (set_store Repaired (s_cand (touch s)) (hget reg hi) p v) as [cand' ok] eqn:Est.
  rewrite Hs, put_single by reflexivity.
  intros H; inversion H; subst; clear H. simpl. rewrite Ha. split; auto.
  right. eexists; split; [reflexivity|]. simpl.
  split; [exact Hl|]. split; [reflexivity|].
  destruct ok.
  - exact (agrees_set _ _ _ _ _ _ _ Hg Est _).
  - apply set_store_failed_atomic in Est. subst. exact Hg.
Qed.

Lemma inv_step reg g st o st' r evs :
  Inv st -> step Repaired reg g st o = (st', r, evs) -> Inv st'.
Proof.
  intros HI. destruct o; simpl.
  - destruct (do_create st) eqn:E. intros H; inversion H; subst. eapply inv_create; eauto.
  - destruct (do_close st id) eqn:E. intros H; inversion H; subst. eapply inv_close; eauto.
  - destruct (do_delete st id) eqn:E. intros H; inversion H; subst. eapply inv_delete; eauto.
  - destruct (do_set Repaired reg st id p v vfail) eqn:E. intros H; inversion H; subst. eapply inv_set; eauto.
  - intros H; inversion H; subst. apply inv_tick; auto.
  - destruct (do_rollback st ver) eqn:E. intros H; inversion H; subst. eapply inv_rollback; eauto.
  - intros H. eapply inv_commit; eauto.
Qed.

Lemma inv_run reg g ops : forall st, Inv st -> Inv (run Repaired reg g st ops).
Proof.
  induction ops as [|o ops IH]; simpl; intros st HI; auto.
  apply IH. destruct (step Repaired reg g st o) as [[st' r] evs] eqn:E. simpl. eapply inv_step; eauto.
Qed.

(* ------------------------------------------------------------------ the property lemmas *)
Definition persisted (st : state) := (running st, startup st, sfile st, vfiles st, vmem st).

(* atomicity: a commit that does not return ok only expires idle sessions and refreshes the
   session's activity stamp; all successful applies are rolled back in reverse order *)
Lemma atomic reg g st id f st' r evs :
  do_commit Repaired reg g st id f = (st', r, evs) -> r <> ROk ->
  st' = touch_state (expire st) id /\ persisted st' = persisted st /\ trace_undone evs.
Proof.
  intros H Hr. apply commit_repaired_cases in H as [[_ [E T]]|[E _]]; [|contradiction].
  subst. split; auto. split; auto. unfold persisted.
  destruct (touch_state_persist (expire st) id) as [P1 [P2 [P3 [P4 [P5 _]]]]].
  rewrite P1, P2, P3, P4, P5. reflexivity.
Qed.

(* frame: a successful commit publishes exactly the candidate, which differs from the previous running
   configuration only at paths set in this session *)
Lemma frame reg g st id f st' evs :
  Inv st -> do_commit Repaired reg g st id f = (st', ROk, evs) ->
  exists s, find_session (sessions (expire st)) id = Some s /\ s_changes s <> [] /\
    running st' = s_cand s /\ startup st' = s_cand s /\ sfile st' = Some (s_cand s) /\
    (forall p, ~ In p (map c_path (s_changes s)) -> get_leaf (running st') p = get_leaf (running st) p) /\
    (forall c, has_cont (running st) c = true -> has_cont (running st') c = true) /\
    (forall c, has_cont (running st') c = true -> has_cont (running st) c = true \/
               exists p, In p (map c_path (s_changes s)) /\ is_prefix c p) /\
    trace_kept evs.
Proof.
  intros HI H. apply commit_repaired_cases in H as [[E _]|[_ [[s [Ef [Hn [Hr [Hs [Hf _]]]]]] K]]]; [congruence|].
  apply inv_expire in HI. destruct (inv_single _ _ _ HI Ef) as [_ [_ [_ [_ [A1 [A2 A3]]]]]].
  exists s. rewrite Hr. repeat split; auto.
Qed.

(* isolation: nothing but a successful commit changes running, startup, the startup file or the versions *)
Lemma isolation reg g st o st' r evs :
  Inv st -> step Repaired reg g st o = (st', r, evs) ->
  persisted st' <> persisted st -> exists id f, o = OCommit id f /\ r = ROk.
Proof.
  intros HI H Hp. destruct o; simpl in H.
  - exfalso. apply Hp. unfold do_create in H. destruct (lock (expire st)); inversion H; subst; reflexivity.
  - exfalso. apply Hp. unfold do_close in H. destruct (has_session _ _); inversion H; subst; reflexivity.
  - exfalso. apply Hp. unfold do_delete in H. destruct (find_session _ _); inversion H; subst; reflexivity.
  - exfalso. apply Hp. destruct (do_set Repaired reg st id p v vfail) as [s1 r1] eqn:E. inversion H; subst.
    pose proof (inv_set _ _ _ _ _ _ _ _ HI E) as [_ Hr].
    unfold persisted. rewrite Hr. unfold do_set in E.
    destruct (find_session _ _); [|inversion E; subst; reflexivity].
    destruct (get_handler reg p); [|inversion E; subst; reflexivity].
    destruct vfail; [inversion E; subst; reflexivity|].
    destruct (set_store _ _ _ _ _). inversion E; subst. reflexivity.
  - exfalso. apply Hp. inversion H; subst. reflexivity.
  - exfalso. apply Hp. unfold do_rollback in H. destruct (_ || _); inversion H; subst; reflexivity.
  - exists id, f. split; auto. destruct r; auto;
    exfalso; apply Hp; (eapply atomic in H; [|discriminate]); destruct H as [_ [H _]]; exact H.
Qed.

(* single lock *)
Lemma single_lock st : Inv st ->
  (forall s1 s2, In s1 (sessions st) -> In s2 (sessions st) -> s1 = s2) /\
  (forall s, In s (sessions st) -> lock st = Some (s_id s)) /\
  (sessions st = [] -> lock st = None).
Proof.
  intros [[Hs Hl]|[s [Hs [Hl _]]]]; rewrite Hs; simpl; repeat split; intros; try contradiction; auto.
  - intuition; subst; auto.
  - intuition; subst; auto.
  - discriminate.
Qed.
Lemma create_refused st o : lock (expire st) = Some o -> do_create st = (expire st, RLocked).
Proof. intros H. unfold do_create. rewrite H. reflexivity. Qed.
Lemma create_granted st st' id : do_create st = (st', RId id) ->
  lock (expire st) = None /\ lock st' = Some id /\ id = (next_id st + 1)%N /\
  exists s, In s (sessions st') /\ s_id s = id /\ s_cand s = running st /\ s_changes s = [].
Proof.
  unfold do_create. destruct (lock (expire st)) eqn:E; intros H; inversion H; subst.
  simpl. repeat split; auto. eexists. split; [apply in_or_app; right; left; reflexivity|]. auto.
Qed.

(* ------------------------------------------------------------------ idle expiry (conf.go:817-832) *)
Lemma filter_all {A} (f : A -> bool) l : (forall x, In x l -> f x = true) -> filter f l = l.
Proof.
  induction l as [|a l IH]; simpl; intros H; auto.
  rewrite (H a) by auto. f_equal. apply IH. intros; apply H; auto.
Qed.
Lemma filter_none {A} (f : A -> bool) l : (forall x, In x l -> f x = false) -> filter f l = [].
Proof.
  induction l as [|a l IH]; simpl; intros H; auto.
  rewrite (H a) by auto. apply IH. intros; apply H; auto.
Qed.

(* sessions that are still alive are not touched by expiry, and nothing else is either *)
Lemma expire_alive st : (forall s, In s (sessions st) -> alive s = true) -> expire st = st.
Proof.
  intros H. unfold expire. rewrite (filter_all alive) by exact H.
  rewrite (filter_none (fun s => negb (alive s))) by (intros x Hx; rewrite (H x Hx); reflexivity).
  destruct st as [r su f ss lk n vm vf]; simpl. destruct lk; reflexivity.
Qed.
(* expiry never touches the datastores *)
Lemma expire_persisted st : persisted (expire st) = persisted st.
Proof. reflexivity. Qed.
(* in a reachable state an idle session disappears with its lock at the next API call ... *)
Lemma expire_idle st s : Inv st -> In s (sessions st) -> alive s = false ->
  sessions (expire st) = [] /\ lock (expire st) = None.
Proof.
  intros [[Hs _]|[s1 [Hs [Hl _]]]] Hin Ha; rewrite Hs in Hin; simpl in Hin; [contradiction|].
  destruct Hin as [->|[]]. unfold expire. rewrite Hs, Hl. simpl. rewrite Ha. simpl.
  rewrite N.eqb_refl. auto.
Qed.
(* ... so the next Create is granted, and every call that names the expired session is refused *)
Lemma expired_create st s : Inv st -> In s (sessions st) -> alive s = false ->
  snd (do_create st) = RId (next_id st + 1)%N.
Proof.
  intros HI Hin Ha. destruct (expire_idle _ _ HI Hin Ha) as [_ Hl].
  unfold do_create. cbv zeta. rewrite Hl. reflexivity.
Qed.
Lemma expired_refused var reg g st s : Inv st -> In s (sessions st) -> alive s = false ->
  forall id,
  (forall p v vf, do_set var reg st id p v vf = (expire st, RNoSession)) /\
  (forall f, do_commit var reg g st id f = (expire st, RNoSession, [])) /\
  do_close st id = (expire st, RNoSession) /\ do_delete st id = (expire st, RNoSession).
Proof.
  intros HI Hin Ha id. destruct (expire_idle _ _ HI Hin Ha) as [Hs _].
  unfold do_set, do_commit, do_close, do_delete. cbv zeta. rewrite Hs. simpl. auto.
Qed.
(* every call that finds the session refreshes its activity stamp *)
Lemma set_touches var reg st id p v vf st' r :
  do_set var reg st id p v vf = (st', r) -> r <> RNoSession ->
  forall s, In s (sessions st') -> s_id s = id -> s_idle s = 0%N.
Proof.
  unfold do_set. cbv zeta.
  destruct (find_session (sessions (expire st)) id) as [s0|] eqn:Ef; [|intros H; inversion H; congruence].
  assert (P : forall s' l, s_idle s' = 0%N -> s_id s' = id -> forall s, In s (put_session l s') -> s_id s = id -> s_idle s = 0%N).
  { intros s' l Hz Hid s Hin Hs. unfold put_session in Hin. apply in_map_iff in Hin as [a [Ea _]].
    destruct (N.eqb (s_id a) (s_id s')) eqn:E; [subst; auto|].
    subst a. apply N.eqb_neq in E. congruence. }
  assert (Hid0 : s_id s0 = id).
  { unfold find_session in Ef. apply find_some in Ef as [_ E]. apply N.eqb_eq in E. exact E. }
  destruct (get_handler reg p) as [hi|]; [|intros H _; inversion H; subst; simpl; apply P; auto].
  destruct vf; [intros H _; inversion H; subst; simpl; apply P; auto|].
  destruct (set_store var (s_cand (touch s0)) (hget reg hi) p v) as [c ok].
  intros H _; inversion H; subst; simpl. apply P; auto.
Qed.

(* ------------------------------------------------------------------ the candidate is exactly the replay of its changes *)
Definition apply_change (reg : registry) (cand : store) (c : change) : store :=
  match get_handler reg (c_path c) with
  | Some hi => fst (set_store Repaired cand (hget reg hi) (c_path c) (c_new c))
  | None => cand
  end.
Definition replay (reg : registry) (run : store) (chs : list change) : store :=
  fold_left (apply_change reg) chs run.

Definition Inv2 (reg : registry) (st : state) : Prop :=
  forall s, In s (sessions st) -> s_cand s = replay reg (running st) (s_changes s).

Lemma in_put_session l s' s : In s (put_session l s') -> s = s' \/ In s l.
Proof.
  unfold put_session. intros H. apply in_map_iff in H as [a [E Ha]].
  destruct (N.eqb (s_id a) (s_id s')); subst; auto.
Qed.
Lemma in_remove_session l id s : In s (remove_session l id) -> In s l.
Proof. unfold remove_session. intros H. apply filter_In in H. tauto. Qed.

Lemma inv2_expire reg st : Inv2 reg st -> Inv2 reg (expire st).
Proof.
  intros H s Hin. unfold expire in Hin. simpl in Hin. apply filter_In in Hin as [Hin _]. apply H; auto.
Qed.
Lemma inv2_touch_state reg st id : Inv2 reg st -> Inv2 reg (touch_state st id).
Proof.
  intros H. unfold touch_state. destruct (find_session (sessions st) id) as [s0|] eqn:Ef; auto.
  intros s Hin. simpl in Hin. apply in_put_session in Hin as [->|Hin]; [|apply H; auto].
  simpl. apply H. unfold find_session in Ef. apply find_some in Ef. tauto.
Qed.

Lemma inv2_step reg g st o st' r evs :
  Inv st -> Inv2 reg st -> step Repaired reg g st o = (st', r, evs) -> Inv2 reg st'.
Proof.
  intros HI H2 H. apply inv_expire in HI as HIe. apply (inv2_expire reg) in H2 as H2e.
  destruct o; simpl in H.
  - (* create *)
    unfold do_create in H. cbv zeta in H. destruct (lock (expire st)); inversion H; subst; auto.
    intros s Hin. simpl in Hin. apply in_app_or in Hin as [Hin|[<-|[]]]; [apply H2e; auto|reflexivity].
  - (* close *)
    unfold do_close in H. cbv zeta in H. destruct (has_session _ _); inversion H; subst; auto.
    intros s Hin. simpl in Hin. apply in_remove_session in Hin. apply H2e; auto.
  - (* delete *)
    unfold do_delete in H. cbv zeta in H.
    destruct (find_session (sessions (expire st)) id) as [s0|] eqn:Ef; inversion H; subst; auto.
    pose proof (inv2_touch_state reg _ id H2e) as T. unfold touch_state in T. rewrite Ef in T. exact T.
  - (* set *)
    unfold do_set in H. cbv zeta in H.
    destruct (find_session (sessions (expire st)) id) as [s0|] eqn:Ef; [|inversion H; subst; auto].
    pose proof (inv2_touch_state reg _ id H2e) as T. unfold touch_state in T. rewrite Ef in T.
    destruct (inv_single _ _ _ HIe Ef) as [Hs [Hl [Hid [Ha Hg]]]].
    assert (Hc0 : s_cand s0 = replay reg (running (expire st)) (s_changes s0)).
    { apply H2e. rewrite Hs. left; reflexivity. }
    destruct (get_handler reg p) as [hi|] eqn:Eh; [|inversion H; subst; exact T].
    destruct vfail; [inversion H; subst; exact T|].
    destruct (set_store Repaired (s_cand (touch s0)) (hget reg hi) p v) as [cand' ok] eqn:Est.
    inversion H; subst; clear H. intros s Hin. simpl in Hin. simpl. rewrite Ha.
    apply in_put_session in Hin as [->|Hin]; [|apply H2e; auto]. simpl.
    destruct ok.
    + change (running (expire st)) with (running st) in Hc0.
      unfold replay in *. rewrite fold_left_app. simpl. rewrite <- Hc0.
      unfold apply_change. simpl. rewrite Eh. simpl in Est. rewrite Est. reflexivity.
    + apply set_store_failed_atomic in Est. subst cand'. exact Hc0.
  - (* tick *)
    inversion H; subst. intros s Hin. unfold do_tick in Hin. simpl in Hin.
    apply in_map_iff in Hin as [a [<- Ha]]. simpl. apply H2; auto.
  - (* rollback *)
    unfold do_rollback in H. cbv zeta in H. destruct (_ || _); inversion H; subst; auto.
  - (* commit *)
    apply commit_repaired_cases in H as [[_ [E _]]|[_ [[s [Ef [_ [_ [_ [_ [Hs _]]]]]]] _]]].
    + subst. apply inv2_touch_state; auto.
    + destruct (inv_single _ _ _ HIe Ef) as [Hs1 [_ [Hid _]]].
      intros s' Hin. rewrite Hs, Hs1 in Hin. subst id. rewrite remove_single in Hin. contradiction.
Qed.

Lemma inv2_run reg g ops : forall st, Inv st -> Inv2 reg st ->
  Inv2 reg (run Repaired reg g st ops).
Proof.
  induction ops as [|o ops IH]; simpl; intros st HI H2; auto.
  destruct (step Repaired reg g st o) as [[st' r] evs] eqn:E. simpl.
  apply IH; [eapply inv_step; eauto | eapply inv2_step; eauto].
Qed.
Lemma inv2_init reg r : Inv2 reg (init_state r).
Proof. intros s []. Qed.

(* a successful commit publishes exactly: the previous running configuration with the session's Sets
   replayed on it in the order they were made *)
Lemma commit_publishes_replay reg g st id f st' evs :
  Inv st -> Inv2 reg st -> do_commit Repaired reg g st id f = (st', ROk, evs) ->
  exists s, find_session (sessions (expire st)) id = Some s /\
            running st' = replay reg (running st) (s_changes s).
Proof.
  intros HI H2 H. apply commit_repaired_cases in H as [[E _]|[_ [[s [Ef [_ [Hr _]]]] _]]]; [congruence|].
  exists s. split; auto. rewrite Hr. apply (inv2_expire reg) in H2. apply H2.
  unfold find_session in Ef. apply find_some in Ef. tauto.
Qed.
