(* C13/Proofs.v — lemmas and invariants for the configuration-manager model *)
From OV Require Import Common.Base C13.Model.
From Coq Require Import ZifyBool ZifyNat ZifyN.

(* ------------------------------------------------------------------ basic facts *)
Lemma path_eqb_refl p : path_eqb p p = true.
Proof. induction p; simpl; auto. rewrite N.eqb_refl; auto. Qed.
Lemma path_eqb_eq p q : path_eqb p q = true <-> p = q.
Proof.
  revert q; induction p as [|x p IH]; destruct q as [|y q]; simpl; split; intros H; try congruence; auto.
  - apply andb_true_iff in H as [H1 H2]. apply N.eqb_eq in H1. apply IH in H2. congruence.
  - inversion H; subst. rewrite N.eqb_refl. simpl. apply IH; auto.
Qed.
Lemma path_eqb_neq p q : path_eqb p q = false <-> p <> q.
Proof.
  split; intros H.
  - intros E. apply path_eqb_eq in E. congruence.
  - destruct (path_eqb p q) eqn:E; auto. apply path_eqb_eq in E. contradiction.
Qed.

Lemma get_remove_same l p : get_leaf_l (remove_leaf_l l p) p = None.
Proof.
  induction l as [|[q v] l IH]; simpl; auto.
  destruct (path_eqb q p) eqn:E; auto. simpl. rewrite E. auto.
Qed.
Lemma get_remove_other l p q : p <> q -> get_leaf_l (remove_leaf_l l p) q = get_leaf_l l q.
Proof.
  intros Hn. induction l as [|[r v] l IH]; simpl; auto.
  destruct (path_eqb r p) eqn:E.
  - apply path_eqb_eq in E; subst r. apply path_eqb_neq in Hn. rewrite Hn. auto.
  - simpl. destruct (path_eqb r q); auto.
Qed.
Lemma get_set_same s p o : get_leaf (set_leaf s p o) p = o.
Proof.
  unfold get_leaf, set_leaf; simpl. destruct o; simpl.
  - rewrite path_eqb_refl; auto.
  - apply get_remove_same.
Qed.
Lemma get_set_other s p o q : p <> q -> get_leaf (set_leaf s p o) q = get_leaf s q.
Proof.
  intros Hn. unfold get_leaf, set_leaf; simpl. destruct o; simpl.
  - apply path_eqb_neq in Hn as Hn'. rewrite Hn'. apply get_remove_other; auto.
  - apply get_remove_other; auto.
Qed.
Lemma conts_set_leaf s p o : conts (set_leaf s p o) = conts s.
Proof. reflexivity. Qed.
Lemma has_cont_set_leaf s p o c : has_cont (set_leaf s p o) c = has_cont s c.
Proof. reflexivity. Qed.

Lemma leaves_add_cont s c : leaves (add_cont s c) = leaves s.
Proof. unfold add_cont. destruct (has_cont s c); reflexivity. Qed.
Lemma has_cont_add_cont s c d :
  has_cont (add_cont s c) d = has_cont s d || path_eqb d c.
Proof.
  unfold add_cont. destruct (has_cont s c) eqn:E.
  - destruct (path_eqb d c) eqn:F; [|rewrite orb_false_r; auto].
    apply path_eqb_eq in F; subst. rewrite E; auto.
  - unfold has_cont at 1; simpl. rewrite orb_comm. reflexivity.
Qed.
Lemma leaves_add_conts ns : forall s p, leaves (add_conts s p ns) = leaves s.
Proof.
  unfold add_conts. induction ns as [|n ns IH]; intros; simpl; auto.
  rewrite IH. apply leaves_add_cont.
Qed.
Lemma get_leaf_add_conts s p ns q : get_leaf (add_conts s p ns) q = get_leaf s q.
Proof. unfold get_leaf. rewrite leaves_add_conts; auto. Qed.
Lemma has_cont_add_conts ns : forall s p d,
  has_cont (add_conts s p ns) d = has_cont s d || existsb (fun n => path_eqb d (firstn n p)) ns.
Proof.
  unfold add_conts. induction ns as [|n ns IH]; intros; simpl.
  - rewrite orb_false_r; auto.
  - rewrite IH, has_cont_add_cont. rewrite orb_assoc. reflexivity.
Qed.

(* ------------------------------------------------------------------ Set on a store *)
Definition is_prefix (c p : path) : Prop := exists n, c = firstn n p.

(* prefixes *)
Lemma is_prefix_b_refl p : is_prefix_b p p = true.
Proof. induction p; simpl; auto. rewrite N.eqb_refl; auto. Qed.
Lemma is_prefix_b_app p x : is_prefix_b p (p ++ x) = true.
Proof. induction p; simpl; auto. rewrite N.eqb_refl; auto. Qed.
Lemma not_below_neq p q : is_prefix_b p q = false -> q <> p.
Proof. intros H E; subst. rewrite is_prefix_b_refl in H. discriminate. Qed.

Lemma get_leaf_l_filter (f : path * sval -> bool) l q :
  (forall v, f (q, v) = true) -> get_leaf_l (filter f l) q = get_leaf_l l q.
Proof.
  intros Hf. induction l as [|[r v] l IH]; simpl; auto.
  destruct (f (r, v)) eqn:E; simpl.
  - destruct (path_eqb r q); auto.
  - destruct (path_eqb r q) eqn:Q; auto. apply path_eqb_eq in Q; subst. rewrite Hf in E. discriminate.
Qed.
Lemma get_leaf_clear_below s p q : is_prefix_b p q = false -> get_leaf (clear_below s p) q = get_leaf s q.
Proof.
  intros H. unfold get_leaf, clear_below; simpl. apply get_leaf_l_filter. intros v. simpl. rewrite H. reflexivity.
Qed.
Lemma get_leaf_put_obj p q fs : is_prefix_b p q = false -> forall s, get_leaf (put_obj s p fs) q = get_leaf s q.
Proof.
  intros H. unfold put_obj. induction fs as [|f fs IH]; intros s; simpl; auto.
  rewrite IH. apply get_set_other. intros E; subst. rewrite is_prefix_b_app in H. discriminate.
Qed.
Lemma conts_put_obj p fs : forall s, conts (put_obj s p fs) = conts s.
Proof. unfold put_obj. induction fs as [|f fs IH]; intros s; simpl; auto. rewrite IH. reflexivity. Qed.
Lemma existsb_filter {A} (f g : A -> bool) l :
  existsb f (filter g l) = existsb (fun x => f x && g x) l.
Proof.
  induction l as [|a l IH]; cbn [filter existsb]; auto.
  destruct (g a) eqn:G; cbn [existsb]; rewrite IH.
  - rewrite andb_true_r. reflexivity.
  - rewrite andb_false_r. reflexivity.
Qed.
Lemma has_cont_clear_below s p c :
  has_cont (clear_below s p) c = has_cont s c && (negb (is_prefix_b p c) || path_eqb c p).
Proof.
  unfold has_cont, clear_below. cbn [conts]. rewrite existsb_filter.
  induction (conts s) as [|d l IH]; cbn [existsb]; auto.
  rewrite IH. destruct (path_eqb c d) eqn:E.
  - apply path_eqb_eq in E; subst d. cbn [andb orb].
    destruct (negb (is_prefix_b p c) || path_eqb c p); cbn [andb orb]; auto.
    rewrite andb_false_r. reflexivity.
  - cbn [andb orb]. reflexivity.
Qed.

Lemma set_store_leaf_frame var s h p v s' ok q :
  set_store var s h p v = (s', ok) -> is_prefix_b p q = false -> get_leaf s' q = get_leaf s q.
Proof.
  unfold set_store. intros H Hb. pose proof (not_below_neq _ _ Hb) as Hn.
  assert (G : forall k, (let s1 := add_conts s p (h_conts h) in
                 match convert k v with
                 | Some o => (set_leaf s1 p o, true)
                 | None => (if v_set_atomic var then s else s1, false)
                 end) = (s', ok) -> get_leaf s' q = get_leaf s q).
  { intros k. cbv zeta. destruct (convert k v) as [o|]; intros E; inversion E; subst.
    - rewrite get_set_other by congruence. apply get_leaf_add_conts.
    - destruct (v_set_atomic var); auto. apply get_leaf_add_conts. }
  destruct (h_kind h); try (apply G in H; exact H).
  - cbv zeta in H. destruct v; try (inversion H; subst; destruct (v_set_atomic var); auto; apply get_leaf_add_conts).
    inversion H; subst. rewrite get_leaf_put_obj, get_leaf_clear_below by assumption. apply get_leaf_add_conts.
  - cbv zeta in H. destruct v; try (inversion H; subst; destruct (v_set_atomic var); auto; apply get_leaf_add_conts).
    inversion H; subst. rewrite get_leaf_put_obj, get_leaf_clear_below by assumption. apply get_leaf_add_conts.
  - inversion H; subst; reflexivity.
  - destruct (forallb _ _); [|inversion H; subst; reflexivity].
    destruct (convert KAny v); inversion H; subst; auto. apply get_set_other; congruence.
Qed.
Lemma set_store_failed_atomic s h p v s' :
  set_store Repaired s h p v = (s', false) -> s' = s.
Proof.
  unfold set_store.
  assert (G : forall k, (let s1 := add_conts s p (h_conts h) in
                 match convert k v with
                 | Some o => (set_leaf s1 p o, true)
                 | None => (if v_set_atomic Repaired then s else s1, false)
                 end) = (s', false) -> s' = s).
  { intros k. cbv zeta. destruct (convert k v); intros E; inversion E; subst; reflexivity. }
  destruct (h_kind h); intros H; try (apply G in H; exact H).
  - cbv zeta in H. destruct v; inversion H; subst; reflexivity.
  - cbv zeta in H. destruct v; inversion H; subst; reflexivity.
  - inversion H.
  - destruct (forallb _ _); [|inversion H; subst; reflexivity].
    destruct (convert KAny v); inversion H; subst; auto.
Qed.
(* a container survives a Set unless it lies below the path that was set (a whole entry was replaced) *)
Lemma set_store_conts_keep var s h p v s' ok c :
  set_store var s h p v = (s', ok) -> has_cont s c = true -> has_cont s' c = true \/ is_prefix_b p c = true.
Proof.
  unfold set_store. intros H Hc.
  assert (G : forall k, (let s1 := add_conts s p (h_conts h) in
                 match convert k v with
                 | Some o => (set_leaf s1 p o, true)
                 | None => (if v_set_atomic var then s else s1, false)
                 end) = (s', ok) -> has_cont s' c = true).
  { intros k. cbv zeta. destruct (convert k v); intros E; inversion E; subst.
    - rewrite has_cont_set_leaf, has_cont_add_conts, Hc; reflexivity.
    - destruct (v_set_atomic var); auto. rewrite has_cont_add_conts, Hc; reflexivity. }
  destruct (h_kind h); try (left; apply G in H; exact H).
  - cbv zeta in H.
    destruct v; try (left; inversion H; subst; destruct (v_set_atomic var); auto; rewrite has_cont_add_conts, Hc; reflexivity).
    inversion H; subst. unfold has_cont at 1. rewrite conts_put_obj. fold (has_cont (clear_below (add_conts s p (h_conts h)) p) c).
    rewrite has_cont_clear_below, has_cont_add_conts, Hc. simpl.
    destruct (is_prefix_b p c); [right; reflexivity | left; reflexivity].
  - cbv zeta in H.
    destruct v; try (left; inversion H; subst; destruct (v_set_atomic var); auto; rewrite has_cont_add_conts, Hc; reflexivity).
    inversion H; subst. unfold has_cont at 1. rewrite conts_put_obj. fold (has_cont (clear_below (add_conts s p (h_conts h)) p) c).
    rewrite has_cont_clear_below, has_cont_add_conts, Hc. simpl.
    destruct (is_prefix_b p c); [right; reflexivity | left; reflexivity].
  - left. inversion H; subst; assumption.
  - left. destruct (forallb _ _); [|inversion H; subst; assumption].
    destruct (convert KAny v); inversion H; subst; auto.
Qed.
Lemma set_store_conts_new s h p v s' c :
  set_store Repaired s h p v = (s', true) -> has_cont s' c = true -> has_cont s c = true \/ is_prefix c p.
Proof.
  unfold set_store. intros H Hc.
  assert (A : has_cont (add_conts s p (h_conts h)) c = true -> has_cont s c = true \/ is_prefix c p).
  { intros H1. rewrite has_cont_add_conts in H1. apply orb_true_iff in H1 as [H1|H1]; auto.
    right. apply existsb_exists in H1 as [n [_ Hn]]. apply path_eqb_eq in Hn. exists n; auto. }
  assert (G : forall k, (let s1 := add_conts s p (h_conts h) in
                 match convert k v with
                 | Some o => (set_leaf s1 p o, true)
                 | None => (if v_set_atomic Repaired then s else s1, false)
                 end) = (s', true) -> has_cont s c = true \/ is_prefix c p).
  { intros k. cbv zeta. destruct (convert k v); intros E; inversion E; subst.
    rewrite has_cont_set_leaf in Hc. auto. }
  destruct (h_kind h); try (apply G in H; exact H).
  - cbv zeta in H. destruct v; inversion H; subst.
    unfold has_cont in Hc. rewrite conts_put_obj in Hc. fold (has_cont (clear_below (add_conts s p (h_conts h)) p) c) in Hc.
    rewrite has_cont_clear_below in Hc. apply andb_true_iff in Hc as [Hc _]. auto.
  - cbv zeta in H. destruct v; inversion H; subst.
    unfold has_cont in Hc. rewrite conts_put_obj in Hc. fold (has_cont (clear_below (add_conts s p (h_conts h)) p) c) in Hc.
    rewrite has_cont_clear_below in Hc. apply andb_true_iff in Hc as [Hc _]. auto.
  - inversion H; subst; auto.
  - destruct (forallb _ _); [|inversion H].
    destruct (convert KAny v); inversion H; subst; auto.
Qed.

(* the variants in which the defects fixed by 1761ed1 and 61c97e1 are repaired; /repo HEAD (= Repaired) is one *)
Definition fixed (var : variant) : Prop := v_persist_first var = true /\ v_set_atomic var = true.
Lemma fixed_repaired : fixed Repaired.  Proof. split; reflexivity. Qed.
Lemma fixed_pre_e792c74 : fixed FrrDefect.  Proof. split; reflexivity. Qed.
Lemma fixed_pre_audit2 : fixed PreAudit2.  Proof. split; reflexivity. Qed.
Lemma set_store_fixed var : v_set_atomic var = true -> forall s h p v, set_store var s h p v = set_store Repaired s h p v.
Proof. intros H s h p v. unfold set_store. rewrite H. reflexivity. Qed.

(* ------------------------------------------------------------------ events *)
(* the recorded call stream: successful Apply calls, and every Rollback call whatever it returned *)
Definition ev_applied (e : ev) : list (path * value) :=
  match e with EApply p v true => [(p, v)] | _ => [] end.
Definition ev_rolled (e : ev) : list (path * value) :=
  match e with ERollback p v _ => [(p, v)] | _ => [] end.
Definition applied_ok (evs : list ev) : list (path * value) := flat_map ev_applied evs.
Definition rolled (evs : list ev) : list (path * value) := flat_map ev_rolled evs.
Definition ckey (c : change) : path * value := (c_path c, c_new c).
Definition has_h (reg : registry) (c : change) : Prop := exists hi, get_handler reg (c_path c) = Some hi.

Lemma applied_ok_app a b : applied_ok (a ++ b) = applied_ok a ++ applied_ok b.
Proof. apply flat_map_app. Qed.
Lemma rolled_app a b : rolled (a ++ b) = rolled a ++ rolled b.
Proof. apply flat_map_app. Qed.

Lemma firstn_S_nth {A} (d : A) l : forall j, (j < length l)%nat -> firstn (S j) l = firstn j l ++ [nth j l d].
Proof.
  induction l as [|a l IH]; intros j Hj; simpl in *; [lia|].
  destruct j; [reflexivity|]. simpl. f_equal. apply IH. lia.
Qed.

(* rollbackChanges walks the applied list from the last index down to 0 and calls Rollback on every
   element that has a handler, whether or not an earlier Rollback returned an error *)
Lemma rollback_loop_spec reg chs k : Forall (has_h reg) chs -> forall i n, (i <= length chs)%nat ->
  rolled (rollback_loop reg chs i n k) = rev (map ckey (firstn i chs)) /\
  applied_ok (rollback_loop reg chs i n k) = [].
Proof.
  intros HF. induction i as [|j IH]; intros n Hi; [split; reflexivity|].
  cbn [rollback_loop].
  assert (Hin : In (nth j chs dflt_change) chs) by (apply nth_In; lia).
  rewrite Forall_forall in HF. destruct (HF _ Hin) as [hi Hh]. rewrite Hh.
  destruct (IH (S n)) as [A B]; [lia|].
  rewrite (firstn_S_nth dflt_change) by lia. rewrite map_app, rev_app_distr. simpl.
  split; [f_equal; exact A | exact B].
Qed.
Lemma rollback_evs_spec reg l k : Forall (has_h reg) l ->
  rolled (rollback_evs reg l k) = rev (map ckey l) /\ applied_ok (rollback_evs reg l k) = [].
Proof.
  intros HF. unfold rollback_evs. destruct (rollback_loop_spec reg l k HF (length l) 0%nat (le_n _)) as [A B].
  rewrite firstn_all in A. auto.
Qed.

Lemma apply_loop_spec reg chs : forall n k applied evs need applied' outcome evs' need',
  apply_loop reg chs n k applied evs need = (applied', outcome, evs', need') ->
  applied_ok evs = map ckey applied -> rolled evs = [] -> Forall (has_h reg) applied ->
  applied_ok evs' = map ckey applied' /\ rolled evs' = [] /\ Forall (has_h reg) applied'.
Proof.
  induction chs as [|c chs IH]; intros n k applied evs need applied' outcome evs' need' H Ha Hr HF;
    cbn [apply_loop] in H.
  - inversion H; subst; auto.
  - destruct (get_handler reg (c_path c)) as [hi|] eqn:Eh; [|inversion H; subst; auto].
    destruct (Nat.eqb (S n) k).
    + inversion H; subst. rewrite applied_ok_app, rolled_app, Hr. simpl. rewrite app_nil_r. auto.
    + eapply IH in H; eauto.
      * rewrite applied_ok_app, map_app, Ha. reflexivity.
      * rewrite rolled_app, Hr. reflexivity.
      * apply Forall_app. split; auto. constructor; auto. exists hi; auto.
Qed.

(* the trace of a commit that fails: every successful Apply is rolled back, in reverse order *)
Definition trace_undone (evs : list ev) : Prop := rolled evs = rev (applied_ok evs).
(* the trace of a commit that succeeds: nothing is rolled back *)
Definition trace_kept (evs : list ev) : Prop := rolled evs = [].

(* ------------------------------------------------------------------ a failed commit *)
Definition touch_state (st : state) (id : N) : state :=
  match find_session (sessions st) id with
  | None => st
  | Some s => set_sessions st (put_session (sessions st) (touch s)) (lock st)
  end.

Lemma set_frr_same x : set_frr x (frr x) = x.
Proof. destruct x; reflexivity. Qed.

Definition commit_success (reg : registry) (g : guard) (st : state) (id : N) (f : faults) (st' : state) : Prop :=
  exists s, find_session (sessions (expire st)) id = Some s /\ s_changes s <> [] /\
    running st' = s_cand s /\ startup st' = s_cand s /\ sfile st' = Some (scrub g (s_cand s)) /\
    sessions st' = remove_session (sessions (expire st)) id /\
    lock st' = release (lock (expire st)) id /\ next_id st' = next_id st /\
    running_oid st' = s_oid s /\ startup_oid st' = (next_oid st + 1)%N /\ next_oid st' = (next_oid st + 1)%N /\
    (frr st' = frr st \/ frr st' = Some (s_cand s)) /\
    (vmem st' = vmem st \/ exists v, vmem st' = vmem st ++ [v]) /\
    (vfiles st' = vfiles st \/ exists v, vfiles st' = vfiles st ++ [v]).

Lemma sort_changes_nil reg run chs l : sort_changes reg run chs = inr l -> chs = [] -> l = [].
Proof. intros H E; subst. simpl in H. inversion H; auto. Qed.
Lemma sort_changes_nonempty reg run chs x l : sort_changes reg run chs = inr (x :: l) -> chs <> [].
Proof. intros H E. apply sort_changes_nil with (l := x :: l) in H; auto. discriminate. Qed.

(* the daemon after a commit that failed: untouched, or — when a reload had been attempted — put back on
   the running configuration *)
Definition daemon_restored (st st' : state) (evs : list ev) : Prop :=
  frr st' = frr st \/ (In EFrrReload evs /\ frr st' = Some (running st)).
(* ... or the restoring reload failed as well (the daemon is down): then the daemon may still run the candidate,
   and — in the variants that report it — the returned error says so *)
Definition daemon_clause (var : variant) (f : faults) (st st' : state) (r : res) (evs : list ev) : Prop :=
  daemon_restored st st' evs \/
  (f_restore f = true /\ (v_report_restore var = true -> r = RFrrReloadU \/ r = RStartupSaveU)).

Lemma commit_cases var reg g st id f st' r evs :
  v_persist_first var = true ->
  do_commit var reg g st id f = (st', r, evs) ->
  (r <> ROk /\ (exists d, st' = set_frr (touch_state (expire st) id) d) /\
   (v_frr_restore var = true \/ f_reload f <> 2%nat -> daemon_clause var f st st' r evs) /\ trace_undone evs) \/
  (r = ROk /\ commit_success reg g st id f st' /\ trace_kept evs).
Proof.
  intros HP. unfold do_commit, touch_state, daemon_clause, daemon_restored.
  destruct (find_session (sessions (expire st)) id) as [s0|] eqn:Ef.
  2:{ intros H; inversion H; subst. left. repeat split; try discriminate; auto.
      exists (frr (expire st)). symmetry. apply set_frr_same. }
  set (st1 := set_sessions (expire st) (put_session (sessions (expire st)) (touch s0)) (lock (expire st))).
  assert (Same : exists d, st1 = set_frr st1 d) by (exists (frr st1); symmetry; apply set_frr_same).
  assert (F1 : frr st1 = frr st) by reflexivity.
  destruct (sort_changes reg (running (expire st)) (s_changes (touch s0))) as [e|sorted] eqn:Es.
  { destruct e; intros H; inversion H; subst; left; repeat split; auto; discriminate. }
  destruct sorted as [|c0 sorted].
  { intros H; inversion H; subst; left; repeat split; auto; discriminate. }
  apply sort_changes_nonempty in Es. simpl in Es.
  destruct (negb (precommit_ok g (s_cand (touch s0)))).
  { intros H; inversion H; subst; left; repeat split; auto; discriminate. }
  destruct (apply_loop reg (c0 :: sorted) 0 (f_apply f) [] [] false) as [[[applied outcome] evs0] need] eqn:Ea.
  apply apply_loop_spec in Ea as [Hap [Hro HF]]; auto.
  destruct (rollback_evs_spec reg applied (f_rollback f) HF) as [RB1 RB2].
  assert (U : forall mid, applied_ok mid = [] -> rolled mid = [] ->
              trace_undone (evs0 ++ mid ++ rollback_evs reg applied (f_rollback f))).
  { intros mid M1 M2. unfold trace_undone.
    rewrite !rolled_app, !applied_ok_app, Hro, M1, M2, RB1, RB2, Hap.
    simpl. rewrite app_nil_r. reflexivity. }
  destruct outcome as [|[|[|k]]].
  2:{ intros H; inversion H; subst; left; repeat split; auto; try discriminate. apply (U []); auto. }
  2:{ intros H; inversion H; subst; left; repeat split; auto; try discriminate. apply (U []); auto. }
  all: cbv zeta.
  all: destruct (need && f_test f);
    [intros H; inversion H; subst; left; repeat split; auto; try discriminate; apply (U [EFrrTest]); auto|].
  all: destruct (need && negb (Nat.eqb (f_reload f) 0)).
  1,3: destruct (v_frr_restore var) eqn:EV; [destruct (f_restore f) eqn:ER|];
       intros H; inversion H; subst; left;
       (split; [destruct (v_report_restore var); discriminate|]);
       (split; [eexists; reflexivity|]); split;
       first [ solve [intros _; right; split; [reflexivity|]; intros HR; rewrite HR; left; reflexivity]
             | solve [intros _; left; right; split; [apply in_or_app; right; simpl; auto | reflexivity]]
             | solve [intros [C|C]; [discriminate|]; left; left; simpl;
                      destruct (Nat.eqb_spec (f_reload f) 2); [contradiction|reflexivity]]
             | solve [apply (U [EFrrTest; EFrrReload; EFrrReload]); auto]
             | solve [apply (U [EFrrTest; EFrrReload]); auto] ].
  all: assert (K : trace_kept (if need then evs0 ++ [EFrrTest; EFrrReload] else evs0))
         by (unfold trace_kept; destruct need; auto; rewrite rolled_app, Hro; reflexivity).
  all: rewrite HP; cbn [negb].
  all: destruct (f_startup f);
    [destruct (need && f_restore f) eqn:ENR;
      [ apply andb_true_iff in ENR as [EN ERs]; subst need; intros H; inversion H; subst; left;
        (split; [destruct (v_report_restore var); discriminate|]); (split; [eexists; reflexivity|]); split;
        [ intros _; right; split; [exact ERs|]; intros HR; rewrite HR; right; reflexivity
        | rewrite <- !app_assoc; apply (U ([EFrrTest; EFrrReload] ++ [EFrrReload])); auto ]
      | intros H; inversion H; subst; left; split; [discriminate|]; split; [eexists; reflexivity|]; split;
        [ intros _; left; destruct need; [right; split; [apply in_or_app; left; apply in_or_app; right; simpl; auto|reflexivity] | left; reflexivity]
        | destruct need; [rewrite <- !app_assoc; apply (U ([EFrrTest; EFrrReload] ++ [EFrrReload])); auto | apply (U []); auto] ] ]
    |].
  all: destruct (version_changes reg (s_changes (touch s0))) eqn:Ev;
    intros H; inversion H; subst; right; (split; [reflexivity|]); (split; [|exact K]);
    exists s0; simpl; repeat split; auto;
    try (destruct need; [right|left]; reflexivity);
    try (right; eexists; reflexivity);
    try (destruct (f_version f); [left; reflexivity | right; eexists; reflexivity]).
Qed.

(* for every variant — also for the tree before the three fixes — as long as the failure is not the reload
   or one of the two persistence failures *)
Lemma commit_early_failure var reg g st id f st' r evs :
  do_commit var reg g st id f = (st', r, evs) ->
  r <> ROk -> r <> RStartupSave -> r <> RVersionSave -> r <> RFrrReload -> r <> RFrrReloadU -> r <> RStartupSaveU ->
  st' = touch_state (expire st) id /\ trace_undone evs.
Proof.
  unfold do_commit, touch_state.
  destruct (find_session (sessions (expire st)) id) as [s0|] eqn:Ef.
  2:{ intros H; inversion H; subst. repeat split. }
  destruct (sort_changes reg (running (expire st)) (s_changes (touch s0))) as [e|sorted] eqn:Es.
  { destruct e; intros H; inversion H; subst; repeat split. }
  destruct sorted as [|c0 sorted].
  { intros H; inversion H; subst; repeat split. }
  destruct (negb (precommit_ok g (s_cand (touch s0)))).
  { intros H; inversion H; subst; repeat split. }
  destruct (apply_loop reg (c0 :: sorted) 0 (f_apply f) [] [] false) as [[[applied outcome] evs0] need] eqn:Ea.
  apply apply_loop_spec in Ea as [Hap [Hro HF]]; auto.
  destruct (rollback_evs_spec reg applied (f_rollback f) HF) as [RB1 RB2].
  assert (U : forall mid, applied_ok mid = [] -> rolled mid = [] ->
              trace_undone (evs0 ++ mid ++ rollback_evs reg applied (f_rollback f))).
  { intros mid M1 M2. unfold trace_undone.
    rewrite !rolled_app, !applied_ok_app, Hro, M1, M2, RB1, RB2, Hap.
    simpl. rewrite app_nil_r. reflexivity. }
  destruct outcome as [|[|[|k]]].
  2:{ intros H; inversion H; subst; split; auto. apply (U []); auto. }
  2:{ intros H; inversion H; subst; split; auto. apply (U []); auto. }
  all: cbv zeta.
  all: destruct (need && f_test f); [intros H; inversion H; subst; split; auto; apply (U [EFrrTest]); auto|].
  all: destruct (need && negb (Nat.eqb (f_reload f) 0));
    [destruct (v_frr_restore var); [destruct (f_restore f); [destruct (v_report_restore var)|]|]; intros H; inversion H; subst; congruence|].
  all: destruct (negb (v_persist_first var));
    (destruct (f_startup f); [try (destruct (need && f_restore f); [destruct (v_report_restore var)|]); intros H; inversion H; subst; congruence|]);
    (destruct (version_changes reg (s_changes (touch s0))); [intros H; inversion H; subst; congruence|]);
    try (destruct (f_version f)); intros H; inversion H; subst; congruence.
Qed.

(* ------------------------------------------------------------------ the invariant *)
Arguments expire : simpl never.
(* [q] is at or below a path this session has set (a whole-entry Set touches everything below it) *)
Definition touched (chs : list change) (q : path) : bool := existsb (fun c => is_prefix_b (c_path c) q) chs.
Definition agrees (cand run : store) (chs : list change) : Prop :=
  (forall q, touched chs q = false -> get_leaf cand q = get_leaf run q) /\
  (forall c, has_cont run c = true -> has_cont cand c = true \/ touched chs c = true) /\
  (forall c, has_cont cand c = true -> has_cont run c = true \/ exists p, In p (map c_path chs) /\ is_prefix c p).

(* at most one session; it owns the lock; its configuration object is not the running or the startup
   object (no sharing); its candidate agrees with running outside the paths it set *)
Definition Inv (st : state) : Prop :=
  (running_oid st <= next_oid st)%N /\ (startup_oid st <= next_oid st)%N /\
  ((sessions st = [] /\ lock st = None) \/
   (exists s, sessions st = [s] /\ lock st = Some (s_id s) /\ (s_oid s <= next_oid st)%N /\
              s_oid s <> running_oid st /\ s_oid s <> startup_oid st /\
              agrees (s_cand s) (running st) (s_changes s))).

Lemma agrees_refl r : agrees r r [].
Proof. repeat split; auto. Qed.

Lemma inv_init r shared : Inv (init_state_gen r shared).
Proof. unfold Inv, init_state_gen; simpl. destruct shared; repeat split; try lia; left; auto. Qed.

Lemma inv_set_frr st d : Inv (set_frr st d) <-> Inv st.
Proof. reflexivity. Qed.

Lemma inv_expire st : Inv st -> Inv (expire st).
Proof.
  intros [B1 [B2 [[Hs Hl]|[s [Hs [Hl [Hb [N1 [N2 Hg]]]]]]]]]; (split; [exact B1|]); (split; [exact B2|]).
  - left. unfold expire; simpl. rewrite Hs, Hl. auto.
  - unfold expire; simpl. rewrite Hs, Hl. simpl. destruct (alive s) eqn:E; simpl.
    + right. exists s. auto 10.
    + left. rewrite N.eqb_refl. auto.
Qed.

Lemma expire_running st : running (expire st) = running st.
Proof. reflexivity. Qed.

Lemma inv_single st s id : Inv st -> find_session (sessions st) id = Some s ->
  sessions st = [s] /\ lock st = Some (s_id s) /\ s_id s = id /\ (s_oid s <= next_oid st)%N /\
  s_oid s <> running_oid st /\ s_oid s <> startup_oid st /\
  agrees (s_cand s) (running st) (s_changes s).
Proof.
  intros [_ [_ [[Hs Hl]|[s1 [Hs [Hl [Hb [N1 [N2 Hg]]]]]]]]] Hf.
  - rewrite Hs in Hf. discriminate.
  - rewrite Hs in Hf. simpl in Hf. destruct (N.eqb (s_id s1) id) eqn:E; [|discriminate].
    inversion Hf; subst. apply N.eqb_eq in E. auto 10.
Qed.

Lemma put_single s s' : s_id s' = s_id s -> put_session [s] s' = [s'].
Proof. intros E. simpl. rewrite E, N.eqb_refl. reflexivity. Qed.
Lemma remove_single s : remove_session [s] (s_id s) = [].
Proof. simpl. rewrite N.eqb_refl. reflexivity. Qed.
Lemma release_own id : release (Some id) id = None.
Proof. simpl. rewrite N.eqb_refl. reflexivity. Qed.

Lemma inv_touch_state st id : Inv st -> Inv (touch_state st id).
Proof.
  intros HI. unfold touch_state. destruct (find_session (sessions st) id) as [s|] eqn:Ef; auto.
  destruct (inv_single _ _ _ HI Ef) as [Hs [Hl [Hid [Hb [N1 [N2 Hg]]]]]].
  destruct HI as [B1 [B2 _]]. split; [exact B1|]. split; [exact B2|].
  right. exists (touch s). simpl. rewrite Hs, put_single by reflexivity. auto 10.
Qed.
Lemma touch_state_persist st id :
  running (touch_state st id) = running st /\ startup (touch_state st id) = startup st /\
  sfile (touch_state st id) = sfile st /\ vmem (touch_state st id) = vmem st /\
  vfiles (touch_state st id) = vfiles st /\ next_id (touch_state st id) = next_id st /\
  lock (touch_state st id) = lock st /\ frr (touch_state st id) = frr st /\
  map s_id (sessions (touch_state st id)) = map s_id (sessions st).
Proof.
  unfold touch_state. destruct (find_session (sessions st) id); simpl; repeat split; auto.
  unfold put_session. rewrite map_map. apply map_ext_in. intros a _.
  destruct (N.eqb (s_id a) (s_id (touch s))) eqn:E; auto. apply N.eqb_eq in E. simpl in *. auto.
Qed.

Lemma inv_commit var reg g st id f st' r evs :
  fixed var -> Inv st -> do_commit var reg g st id f = (st', r, evs) -> Inv st'.
Proof.
  intros HV HI H.
  apply (commit_cases _ _ _ _ _ _ _ _ _ (proj1 HV)) in H
    as [[_ [[d E] _]]|[_ [[s [Ef [_ [_ [_ [_ [Hs [Hl [_ [O1 [O2 [O3 _]]]]]]]]]]]] _]]].
  - subst. apply inv_set_frr, inv_touch_state, inv_expire, HI.
  - apply inv_expire in HI. destruct (inv_single _ _ _ HI Ef) as [Hs1 [Hl1 [Hid [Hb _]]]].
    split; [rewrite O1, O3; simpl in *; change (next_oid (expire st)) with (next_oid st) in Hb; lia|].
    split; [rewrite O2, O3; lia|].
    left. rewrite Hs, Hl, Hs1, Hl1. subst id. rewrite remove_single, release_own. auto.
Qed.

Lemma inv_create st st' r : Inv st -> do_create st = (st', r) -> Inv st'.
Proof.
  intros HI. apply inv_expire in HI. unfold do_create. cbv zeta.
  destruct (lock (expire st)) eqn:El.
  - intros H; inversion H; subst; auto.
  - destruct HI as [B1 [B2 [[Hs _]|[s [_ [Hl _]]]]]]; [|congruence].
    unfold expire in B1, B2; simpl in B1, B2.
    rewrite Hs. intros H; inversion H; subst. simpl.
    split; [simpl; lia|]. split; [simpl; lia|].
    right. eexists. simpl. split; [reflexivity|]. simpl. repeat split; auto; lia.
Qed.

Lemma has_session_find l id : has_session l id = true -> exists s, find_session l id = Some s.
Proof.
  unfold has_session, find_session. induction l as [|a l IH]; simpl; [discriminate|].
  destruct (N.eqb (s_id a) id); eauto.
Qed.

Lemma inv_close st id st' r : Inv st -> do_close st id = (st', r) -> Inv st'.
Proof.
  intros HI. apply inv_expire in HI. unfold do_close. cbv zeta.
  destruct (has_session (sessions (expire st)) id) eqn:Eh.
  - apply has_session_find in Eh as [s Ef].
    destruct (inv_single _ _ _ HI Ef) as [Hs [Hl [Hid _]]].
    rewrite Hs, Hl. subst id. rewrite remove_single, release_own.
    destruct HI as [B1 [B2 _]].
    intros H; inversion H; subst. split; [exact B1|]. split; [exact B2|]. left. auto.
  - intros H; inversion H; subst; auto.
Qed.

Lemma inv_delete st id st' r : Inv st -> do_delete st id = (st', r) -> Inv st'.
Proof.
  intros HI. apply inv_expire in HI. unfold do_delete. cbv zeta.
  destruct (find_session (sessions (expire st)) id) as [s|] eqn:Ef.
  - intros H; inversion H; subst.
    pose proof (inv_touch_state _ id HI) as HT. unfold touch_state in HT. rewrite Ef in HT. exact HT.
  - intros H; inversion H; subst; auto.
Qed.

Lemma inv_tick st d : Inv st -> Inv (do_tick st d).
Proof.
  intros [B1 [B2 [[Hs Hl]|[s [Hs [Hl [Hb [N1 [N2 Hg]]]]]]]]]; (split; [exact B1|]); (split; [exact B2|]).
  - left. unfold do_tick; simpl. rewrite Hs; auto.
  - right. unfold do_tick; simpl. rewrite Hs. simpl. eexists; split; [reflexivity|]. simpl. auto 10.
Qed.

Lemma inv_rollback st v st' r : Inv st -> do_rollback st v = (st', r) -> Inv st'.
Proof.
  intros HI. apply inv_expire in HI. unfold do_rollback. cbv zeta.
  destruct (_ || _); intros H; inversion H; subst; auto.
  destruct HI as [B1 [B2 HS]]. unfold expire in B1, B2; simpl in B1, B2.
  split; [simpl; lia|]. split; [simpl; lia|]. simpl.
  destruct HS as [?|[s [Hs [Hl [Hb [N1 [N2 Hg]]]]]]]; [left; auto|].
  unfold expire in Hb; simpl in Hb.
  right. exists s. repeat split; auto; try apply Hg. lia.
Qed.

Lemma touched_app chs c q : touched (chs ++ [c]) q = touched chs q || is_prefix_b (c_path c) q.
Proof. unfold touched. rewrite existsb_app. simpl. rewrite orb_false_r. reflexivity. Qed.

Lemma agrees_set cand run chs h p v cand' :
  agrees cand run chs -> set_store Repaired cand h p v = (cand', true) ->
  forall o sm, agrees cand' run (chs ++ [{| c_path := p; c_old := o; c_new := v; c_same := sm |}]).
Proof.
  intros [A1 [A2 A3]] Hs o sm. repeat split.
  - intros q Hq. rewrite touched_app in Hq. apply orb_false_iff in Hq as [Hq1 Hq2]. simpl in Hq2.
    rewrite (set_store_leaf_frame _ _ _ _ _ _ _ q Hs Hq2). apply A1; auto.
  - intros c Hc. rewrite touched_app. simpl. apply A2 in Hc as [Hc|Hc].
    + eapply set_store_conts_keep in Hc; eauto. destruct Hc as [Hc|Hc]; [left; auto | right; rewrite Hc; apply orb_true_r].
    + right. rewrite Hc. reflexivity.
  - intros c Hc. eapply set_store_conts_new in Hc; eauto. destruct Hc as [Hc|Hc].
    + apply A3 in Hc as [Hc|[q [Hq Hp]]]; auto. right. exists q. rewrite map_app, in_app_iff. auto.
    + right. exists p. rewrite map_app, in_app_iff. simpl. auto.
Qed.

(* a write through the session's object reaches the session only: nothing else holds that object *)
Lemma write_obj_private st s o c :
  sessions st = [s] -> s_oid s = o -> o <> running_oid st -> o <> startup_oid st ->
  write_obj st o c =
  set_sessions st [{| s_id := s_id s; s_cand := c; s_oid := s_oid s; s_changes := s_changes s; s_idle := s_idle s |}] (lock st).
Proof.
  intros Hs Ho N1 N2. unfold write_obj, set_sessions. rewrite Hs. simpl.
  rewrite Ho, N.eqb_refl.
  destruct (N.eqb_spec (running_oid st) o); [congruence|].
  destruct (N.eqb_spec (startup_oid st) o); [congruence|]. reflexivity.
Qed.

Lemma inv_set var reg st id p v vf st' r :
  fixed var -> Inv st -> do_set var reg st id p v vf = (st', r) ->
  Inv st' /\ running st' = running st /\ startup st' = startup st.
Proof.
  intros HV HI. apply inv_expire in HI. unfold do_set. cbv zeta.
  destruct (find_session (sessions (expire st)) id) as [s|] eqn:Ef.
  2:{ intros H; inversion H; subst; auto. }
  destruct (inv_single _ _ _ HI Ef) as [Hs [Hl [Hid [Hb [N1 [N2 Hg]]]]]].
  assert (HT : Inv (set_sessions (expire st) (put_session (sessions (expire st)) (touch s)) (lock (expire st)))).
  { pose proof (inv_touch_state _ id HI) as HT. unfold touch_state in HT. rewrite Ef in HT. exact HT. }
  destruct (get_handler reg p) as [hi|]; [|intros H; inversion H; subst; auto].
  destruct vf; [intros H; inversion H; subst; auto|].
  rewrite (set_store_fixed var (proj2 HV)).
  destruct (set_store Repaired (s_cand (touch s)) (hget reg hi) p v) as [cand' ok] eqn:Est.
  rewrite Hs, put_single by reflexivity.
  match goal with |- (write_obj ?X ?o ?c, _) = _ -> _ =>
    rewrite (write_obj_private X _ o c eq_refl eq_refl N1 N2) end.
  intros H; inversion H; subst; clear H. simpl. split; auto.
  destruct HI as [B1 [B2 _]]. split; [exact B1|]. split; [exact B2|].
  right. eexists; split; [reflexivity|]. simpl.
  split; [exact Hl|]. split; [exact Hb|]. split; [exact N1|]. split; [exact N2|].
  destruct ok.
  - exact (agrees_set _ _ _ _ _ _ _ Hg Est _ _).
  - apply set_store_failed_atomic in Est. subst. exact Hg.
Qed.

Lemma inv_save_startup g st fl st' r : Inv st -> do_save_startup g st fl = (st', r) -> Inv st'.
Proof.
  intros [B1 [B2 HS]] H. unfold do_save_startup in H. inversion H; subst; clear H.
  split; [simpl; lia|]. split; [simpl; lia|]. simpl.
  destruct HS as [?|[s [Hs [Hl [Hb [N1 [N2 Hg]]]]]]]; [left; auto|].
  right. exists s. repeat split; auto; try apply Hg; lia.
Qed.
Lemma inv_reset st : Inv st -> Inv (do_reset st).
Proof.
  intros [B1 [B2 _]]. unfold do_reset. split; [simpl; lia|]. split; [simpl; lia|]. left. auto.
Qed.
Lemma inv_reload_frr st k st' r evs : Inv st -> do_reload_frr st k = (st', r, evs) -> Inv st'.
Proof.
  intros HI H. unfold do_reload_frr in H. destruct k as [|[|[|k]]]; inversion H; subst; auto.
Qed.

Lemma inv_step var reg g st o st' r evs :
  fixed var -> inv_ok o = true -> Inv st -> step var reg g st o = (st', r, evs) -> Inv st'.
Proof.
  intros HV HP HI. destruct o; try discriminate HP; simpl.
  8:{ intros H; inversion H; subst; clear H. eapply (inv_save_startup g st); [exact HI | reflexivity]. }
  8:{ intros H; inversion H; subst. apply inv_reset; auto. }
  8:{ intros H. eapply inv_reload_frr; eauto. }
  - destruct (do_create st) eqn:E. intros H; inversion H; subst. eapply inv_create; eauto.
  - destruct (do_close st id) eqn:E. intros H; inversion H; subst. eapply inv_close; eauto.
  - destruct (do_delete st id) eqn:E. intros H; inversion H; subst. eapply inv_delete; eauto.
  - destruct (do_set var reg st id p v vfail) eqn:E. intros H; inversion H; subst. eapply inv_set; eauto.
  - intros H; inversion H; subst. apply inv_tick; auto.
  - destruct (do_rollback st ver) eqn:E. intros H; inversion H; subst. eapply inv_rollback; eauto.
  - intros H. eapply inv_commit; eauto.
Qed.

Lemma inv_run var reg g ops : fixed var -> forallb inv_ok ops = true -> forall st, Inv st -> Inv (run var reg g st ops).
Proof.
  intros HV. induction ops as [|o ops IH]; simpl; intros HP st HI; auto.
  apply andb_true_iff in HP as [HP1 HP2]. apply IH; auto. destruct (step var reg g st o) as [[st' r] evs] eqn:E. simpl. eapply inv_step; eauto.
Qed.

(* ------------------------------------------------------------------ the property lemmas *)
Definition persisted (st : state) := (running st, startup st, sfile st, vfiles st, vmem st).

(* atomicity: a commit that does not return ok only expires idle sessions, refreshes the session's
   activity stamp and — when a daemon reload had been attempted — puts the daemon back on the running
   configuration; every successful Apply is rolled back in reverse order, whatever the Rollback calls return *)
Lemma atomic var reg g st id f st' r evs :
  fixed var -> do_commit var reg g st id f = (st', r, evs) -> r <> ROk ->
  (exists d, st' = set_frr (touch_state (expire st) id) d) /\ persisted st' = persisted st /\
  (v_frr_restore var = true \/ f_reload f <> 2%nat -> daemon_clause var f st st' r evs) /\ trace_undone evs.
Proof.
  intros HV H Hr. apply (commit_cases _ _ _ _ _ _ _ _ _ (proj1 HV)) in H as [[_ [[d E] [D T]]]|[E _]]; [|contradiction].
  split; [exists d; exact E|]. split; [|auto]. subst. unfold persisted. simpl.
  destruct (touch_state_persist (expire st) id) as [P1 [P2 [P3 [P4 [P5 _]]]]].
  rewrite P1, P2, P3, P4, P5. reflexivity.
Qed.

(* frame: a successful commit publishes exactly the candidate, which differs from the previous running
   configuration only at paths set in this session *)
Lemma frame var reg g st id f st' evs :
  fixed var -> Inv st -> do_commit var reg g st id f = (st', ROk, evs) ->
  exists s, find_session (sessions (expire st)) id = Some s /\ s_changes s <> [] /\
    running st' = s_cand s /\ startup st' = s_cand s /\ sfile st' = Some (scrub g (s_cand s)) /\
    (frr st' = frr st \/ frr st' = Some (running st')) /\
    (forall p, touched (s_changes s) p = false -> get_leaf (running st') p = get_leaf (running st) p) /\
    (forall c, has_cont (running st) c = true -> has_cont (running st') c = true \/ touched (s_changes s) c = true) /\
    (forall c, has_cont (running st') c = true -> has_cont (running st) c = true \/
               exists p, In p (map c_path (s_changes s)) /\ is_prefix c p) /\
    trace_kept evs.
Proof.
  intros HV HI H. apply (commit_cases _ _ _ _ _ _ _ _ _ (proj1 HV)) in H as [[E _]|[_ [CS K]]]; [congruence|].
  destruct CS as [s [Ef [Hn [Hr [Hs [Hf [_ [_ [_ [_ [_ [_ [Hd _]]]]]]]]]]]]].
  apply inv_expire in HI. destruct (inv_single _ _ _ HI Ef) as [_ [_ [_ [_ [_ [_ [A1 [A2 A3]]]]]]]].
  exists s. rewrite Hr. repeat split; auto.
Qed.

(* isolation: nothing but a successful commit changes running, startup, the startup file or the versions;
   nothing but a commit touches the routing daemon *)
Lemma isolation var reg g st o st' r evs :
  fixed var -> plain o = true -> Inv st -> step var reg g st o = (st', r, evs) ->
  (persisted st' <> persisted st -> exists id f, o = OCommit id f /\ r = ROk) /\
  (frr st' <> frr st -> exists id f, o = OCommit id f).
Proof.
  intros HV HP HI H.
  assert (Q : (persisted st' = persisted st /\ frr st' = frr st) \/ exists id f, o = OCommit id f /\
              (r <> ROk -> persisted st' = persisted st)).
  { destruct o; try discriminate HP; simpl in H.
    - left. unfold do_create in H. cbv zeta in H. destruct (lock (expire st)); inversion H; subst; split; reflexivity.
    - left. unfold do_close in H. cbv zeta in H. destruct (has_session _ _); inversion H; subst; split; reflexivity.
    - left. unfold do_delete in H. cbv zeta in H. destruct (find_session _ _); inversion H; subst; split; reflexivity.
    - left. destruct (do_set var reg st id p v vfail) as [s1 r1] eqn:E. inversion H; subst.
      pose proof (inv_set _ _ _ _ _ _ _ _ _ HV HI E) as [_ [Hr Hs]].
      unfold persisted. rewrite Hr, Hs. unfold do_set in E. cbv zeta in E.
      destruct (find_session _ _); [|inversion E; subst; split; reflexivity].
      destruct (get_handler reg p); [|inversion E; subst; split; reflexivity].
      destruct vfail; [inversion E; subst; split; reflexivity|].
      destruct (set_store _ _ _ _ _). inversion E; subst. split; reflexivity.
    - left. inversion H; subst. split; reflexivity.
    - left. unfold do_rollback in H. cbv zeta in H. destruct (_ || _); inversion H; subst; split; reflexivity.
    - right. exists id, f. split; auto. intros Hr. eapply atomic in H; eauto. apply H. }
  destruct Q as [[P F]|[id [f [E P]]]]; split; intros Hn; try congruence; try (exists id, f; auto; fail).
  exists id, f. split; auto. destruct r; auto; exfalso; apply Hn, P; discriminate.
Qed.

(* single lock *)
Lemma single_lock st : Inv st ->
  (forall s1 s2, In s1 (sessions st) -> In s2 (sessions st) -> s1 = s2) /\
  (forall s, In s (sessions st) -> lock st = Some (s_id s)) /\
  (sessions st = [] -> lock st = None) /\
  (forall s, In s (sessions st) -> s_oid s <> running_oid st /\ s_oid s <> startup_oid st).
Proof.
  intros [_ [_ [[Hs Hl]|[s [Hs [Hl [_ [N1 [N2 _]]]]]]]]]; rewrite Hs; simpl; repeat split; intros; try contradiction; auto.
  - intuition; subst; auto.
  - intuition; subst; auto.
  - discriminate.
  - intuition; subst; auto.
  - intuition; subst; auto.
Qed.
Lemma create_refused st o : lock (expire st) = Some o -> do_create st = (expire st, RLocked).
Proof. intros H. unfold do_create. cbv zeta. rewrite H. reflexivity. Qed.
Lemma create_granted st st' id : do_create st = (st', RId id) ->
  lock (expire st) = None /\ lock st' = Some id /\ id = (next_id st + 1)%N /\
  exists s, In s (sessions st') /\ s_id s = id /\ s_cand s = running st /\ s_changes s = [] /\
            s_oid s = (next_oid st + 1)%N.
Proof.
  unfold do_create. cbv zeta. destruct (lock (expire st)) eqn:E; intros H; inversion H; subst.
  simpl. repeat split; auto. eexists. split; [apply in_or_app; right; left; reflexivity|]. auto.
Qed.

(* ------------------------------------------------------------------ idle expiry (conf.go:817-832) *)
Lemma filter_all {A} (f : A -> bool) l : (forall x, In x l -> f x = true) -> filter f l = l.
Proof.
  induction l as [|a l IH]; simpl; intros H; auto.
  rewrite (H a) by auto. f_equal. apply IH. intros; apply H; auto.
Qed.
Lemma filter_none {A} (f : A -> bool) l : (forall x, In x l -> f x = false) -> filter f l = [].
Proof.
  induction l as [|a l IH]; simpl; intros H; auto.
  rewrite (H a) by auto. apply IH. intros; apply H; auto.
Qed.

Lemma expire_alive st : (forall s, In s (sessions st) -> alive s = true) -> expire st = st.
Proof.
  intros H. unfold expire. rewrite (filter_all alive) by exact H.
  rewrite (filter_none (fun s => negb (alive s))) by (intros x Hx; rewrite (H x Hx); reflexivity).
  destruct st as [r ro su so f d ss lk n no vm vf]; simpl. unfold set_sessions; simpl. destruct lk; reflexivity.
Qed.
Lemma expire_persisted st : persisted (expire st) = persisted st /\ frr (expire st) = frr st.
Proof. split; reflexivity. Qed.
Lemma expire_idle st s : Inv st -> In s (sessions st) -> alive s = false ->
  sessions (expire st) = [] /\ lock (expire st) = None.
Proof.
  intros [_ [_ [[Hs _]|[s1 [Hs [Hl _]]]]]] Hin Ha; rewrite Hs in Hin; simpl in Hin; [contradiction|].
  destruct Hin as [->|[]]. unfold expire. simpl. rewrite Hs, Hl. simpl. rewrite Ha. simpl.
  rewrite N.eqb_refl. auto.
Qed.
Lemma expired_create st s : Inv st -> In s (sessions st) -> alive s = false ->
  snd (do_create st) = RId (next_id st + 1)%N.
Proof.
  intros HI Hin Ha. destruct (expire_idle _ _ HI Hin Ha) as [_ Hl].
  unfold do_create. cbv zeta. rewrite Hl. reflexivity.
Qed.
Lemma expired_refused var reg g st s : Inv st -> In s (sessions st) -> alive s = false ->
  forall id,
  (forall p v vf, do_set var reg st id p v vf = (expire st, RNoSession)) /\
  (forall f, do_commit var reg g st id f = (expire st, RNoSession, [])) /\
  do_close st id = (expire st, RNoSession) /\ do_delete st id = (expire st, RNoSession).
Proof.
  intros HI Hin Ha id. destruct (expire_idle _ _ HI Hin Ha) as [Hs _].
  unfold do_set, do_commit, do_close, do_delete. cbv zeta. rewrite Hs. simpl. auto.
Qed.

(* ------------------------------------------------------------------ the candidate is exactly the replay of its changes *)
Definition apply_change (reg : registry) (cand : store) (c : change) : store :=
  match get_handler reg (c_path c) with
  | Some hi => fst (set_store Repaired cand (hget reg hi) (c_path c) (c_new c))
  | None => cand
  end.
Definition replay (reg : registry) (run : store) (chs : list change) : store :=
  fold_left (apply_change reg) chs run.

Definition Inv2 (reg : registry) (st : state) : Prop :=
  forall s, In s (sessions st) -> s_cand s = replay reg (running st) (s_changes s).

Lemma in_put_session l s' s : In s (put_session l s') -> s = s' \/ In s l.
Proof.
  unfold put_session. intros H. apply in_map_iff in H as [a [E Ha]].
  destruct (N.eqb (s_id a) (s_id s')); subst; auto.
Qed.
Lemma in_remove_session l id s : In s (remove_session l id) -> In s l.
Proof. unfold remove_session. intros H. apply filter_In in H. tauto. Qed.

Lemma inv2_expire reg st : Inv2 reg st -> Inv2 reg (expire st).
Proof.
  intros H s Hin. unfold expire in Hin. simpl in Hin. apply filter_In in Hin as [Hin _]. apply H; auto.
Qed.
Lemma inv2_touch_state reg st id : Inv2 reg st -> Inv2 reg (touch_state st id).
Proof.
  intros H. unfold touch_state. destruct (find_session (sessions st) id) as [s0|] eqn:Ef; auto.
  intros s Hin. simpl in Hin. apply in_put_session in Hin as [->|Hin]; [|apply H; auto].
  simpl. apply H. unfold find_session in Ef. apply find_some in Ef. tauto.
Qed.

Lemma inv2_step var reg g st o st' r evs :
  fixed var -> inv_ok o = true -> Inv st -> Inv2 reg st -> step var reg g st o = (st', r, evs) -> Inv2 reg st'.
Proof.
  intros HV HP HI H2 H. apply inv_expire in HI as HIe. apply (inv2_expire reg) in H2 as H2e.
  destruct o; try discriminate HP; simpl in H.
  8:{ unfold do_save_startup in H. inversion H; subst. exact H2. }
  8:{ inversion H; subst. intros s []. }
  8:{ unfold do_reload_frr in H. destruct k as [|[|[|k]]]; inversion H; subst; exact H2. }
  - unfold do_create in H. cbv zeta in H. destruct (lock (expire st)); inversion H; subst; auto.
    intros s Hin. simpl in Hin. apply in_app_or in Hin as [Hin|[<-|[]]]; [apply H2e; auto|reflexivity].
  - unfold do_close in H. cbv zeta in H. destruct (has_session _ _); inversion H; subst; auto.
    intros s Hin. simpl in Hin. apply in_remove_session in Hin. apply H2e; auto.
  - unfold do_delete in H. cbv zeta in H.
    destruct (find_session (sessions (expire st)) id) as [s0|] eqn:Ef; inversion H; subst; auto.
    pose proof (inv2_touch_state reg _ id H2e) as T. unfold touch_state in T. rewrite Ef in T. exact T.
  - unfold do_set in H. cbv zeta in H.
    destruct (find_session (sessions (expire st)) id) as [s0|] eqn:Ef; [|inversion H; subst; auto].
    pose proof (inv2_touch_state reg _ id H2e) as T. unfold touch_state in T. rewrite Ef in T.
    destruct (inv_single _ _ _ HIe Ef) as [Hs [Hl [Hid [Hb [N1 [N2 Hg]]]]]].
    assert (Hc0 : s_cand s0 = replay reg (running (expire st)) (s_changes s0)).
    { apply H2e. rewrite Hs. left; reflexivity. }
    destruct (get_handler reg p) as [hi|] eqn:Eh; [|inversion H; subst; exact T].
    destruct vfail; [inversion H; subst; exact T|].
    rewrite (set_store_fixed var (proj2 HV)) in H.
    destruct (set_store Repaired (s_cand (touch s0)) (hget reg hi) p v) as [cand' ok] eqn:Est.
    rewrite Hs, put_single in H by reflexivity.
    cbv beta iota zeta in H.
    match type of H with (write_obj ?X ?o ?c, _, _) = _ =>
      rewrite (write_obj_private X _ o c eq_refl eq_refl N1 N2) in H end.
    inversion H; subst; clear H. intros s Hin. simpl in Hin. destruct Hin as [<-|[]]. simpl.
    destruct ok.
    + change (running (expire st)) with (running st) in Hc0.
      unfold replay in *. rewrite fold_left_app. simpl. rewrite <- Hc0.
      unfold apply_change. simpl. rewrite Eh. simpl in Est. rewrite Est. reflexivity.
    + apply set_store_failed_atomic in Est. subst cand'. exact Hc0.
  - inversion H; subst. intros s Hin. unfold do_tick in Hin. simpl in Hin.
    apply in_map_iff in Hin as [a [<- Ha]]. simpl. apply H2; auto.
  - unfold do_rollback in H. cbv zeta in H. destruct (_ || _); inversion H; subst; auto.
  - apply (commit_cases _ _ _ _ _ _ _ _ _ (proj1 HV)) in H as [[_ [[d E] _]]|[_ [[s [Ef [_ [_ [_ [_ [Hs _]]]]]]] _]]].
    + subst. apply inv2_touch_state; auto.
    + destruct (inv_single _ _ _ HIe Ef) as [Hs1 [_ [Hid _]]].
      intros s' Hin. rewrite Hs, Hs1 in Hin. subst id. rewrite remove_single in Hin. contradiction.
Qed.

Lemma inv2_run var reg g ops : fixed var -> forallb inv_ok ops = true -> forall st, Inv st -> Inv2 reg st ->
  Inv2 reg (run var reg g st ops).
Proof.
  intros HV. induction ops as [|o ops IH]; simpl; intros HP st HI H2; auto.
  apply andb_true_iff in HP as [HP1 HP2].
  destruct (step var reg g st o) as [[st' r] evs] eqn:E. simpl.
  apply IH; [auto | eapply inv_step; eauto | eapply inv2_step; eauto].
Qed.
Lemma inv2_init reg r shared : Inv2 reg (init_state_gen r shared).
Proof. intros s []. Qed.

Lemma commit_publishes_replay var reg g st id f st' evs :
  fixed var -> Inv st -> Inv2 reg st -> do_commit var reg g st id f = (st', ROk, evs) ->
  exists s, find_session (sessions (expire st)) id = Some s /\
            running st' = replay reg (running st) (s_changes s).
Proof.
  intros HV HI H2 H. apply (commit_cases _ _ _ _ _ _ _ _ _ (proj1 HV)) in H as [[E _]|[_ [[s [Ef [_ [Hr _]]]] _]]]; [congruence|].
  exists s. split; auto. rewrite Hr. apply (inv2_expire reg) in H2. apply H2.
  unfold find_session in Ef. apply find_some in Ef. tauto.
Qed.

(* every call that finds the session refreshes its activity stamp *)
Lemma set_touches var reg st id p v vf st' r :
  do_set var reg st id p v vf = (st', r) -> r <> RNoSession ->
  forall s, In s (sessions st') -> s_id s = id -> s_idle s = 0%N.
Proof.
  unfold do_set. cbv zeta.
  destruct (find_session (sessions (expire st)) id) as [s0|] eqn:Ef; [|intros H; inversion H; congruence].
  assert (P : forall s' l, s_idle s' = 0%N -> s_id s' = id -> forall s, In s (put_session l s') -> s_id s = id -> s_idle s = 0%N).
  { intros s' l Hz Hid s Hin Hs. unfold put_session in Hin. apply in_map_iff in Hin as [a [Ea _]].
    destruct (N.eqb (s_id a) (s_id s')) eqn:E; [subst; auto|].
    subst a. apply N.eqb_neq in E. congruence. }
  assert (Hid0 : s_id s0 = id).
  { unfold find_session in Ef. apply find_some in Ef as [_ E]. apply N.eqb_eq in E. exact E. }
  destruct (get_handler reg p) as [hi|]; [|intros H _; inversion H; subst; simpl; apply P; auto].
  destruct vf; [intros H _; inversion H; subst; simpl; apply P; auto|].
  destruct (set_store var (s_cand (touch s0)) (hget reg hi) p v) as [c ok].
  intros H _; inversion H; subst; simpl. intros s Hin Hid.
  apply in_map_iff in Hin as [a [Ea Hin]].
  assert (s_id s = s_id a /\ s_idle s = s_idle a) as [I1 I2] by (destruct (N.eqb (s_oid a) _); subst; auto).
  rewrite I2. eapply P; [| |exact Hin|congruence]; reflexivity.
Qed.


(* ------------------------------------------------------------------ contracts made explicit (round 3) *)
(* whatever happened before — failed commits, LoadConfig, start-up — a Commit that returns ok has run the
   pre-commit validation on the candidate it publishes *)
Lemma commit_validates var reg g st id f st' evs :
  do_commit var reg g st id f = (st', ROk, evs) ->
  exists s, find_session (sessions (expire st)) id = Some s /\ precommit_ok g (s_cand s) = true /\
            running st' = s_cand s.
Proof.
  unfold do_commit.
  destruct (find_session (sessions (expire st)) id) as [s0|] eqn:Ef; [|intros H; inversion H].
  destruct (sort_changes reg (running (expire st)) (s_changes (touch s0))) as [e|sorted].
  { destruct e; intros H; inversion H. }
  destruct sorted as [|c0 sorted]; [intros H; inversion H|].
  destruct (precommit_ok g (s_cand (touch s0))) eqn:EP; [|intros H; inversion H].
  cbn [negb].
  destruct (apply_loop reg (c0 :: sorted) 0 (f_apply f) [] [] false) as [[[applied outcome] evs0] need].
  destruct outcome as [|[|[|k]]]; try (intros H; inversion H; fail).
  all: cbv zeta.
  all: destruct (need && f_test f); [intros H; inversion H|].
  all: destruct (need && negb (Nat.eqb (f_reload f) 0));
    [destruct (v_frr_restore var); [destruct (f_restore f); [destruct (v_report_restore var)|]|]; intros H; inversion H|].
  all: destruct (negb (v_persist_first var));
    (destruct (f_startup f); [try (destruct (need && f_restore f); [destruct (v_report_restore var)|]); intros H; inversion H|]);
    (destruct (version_changes reg (s_changes (touch s0))); [|try (destruct (f_version f))]);
    intros H; inversion H; subst; exists s0; auto.
Qed.

(* the start-up path in the variants that make it atomic: a start-up that fails — validation of the loaded
   configuration, a held lock, the derivation, any failure of its commit — leaves running what it was and
   writes neither the startup file nor a version *)
Lemma boot_atomic var reg g st cfg steps em f st' r evs :
  v_boot_atomic var = true -> do_boot var reg g st cfg steps em f = (st', r, evs) -> is_boot_ok r = false ->
  running st' = running st /\ running_oid st' = running_oid st.
Proof.
  intros HB. unfold do_boot. rewrite HB. cbv zeta. cbn [andb].
  destruct (negb (precommit_ok g cfg)); [intros H; inversion H; subst; auto|].
  match goal with |- (let (_, _) := ?X in _) = _ -> _ => destruct X as [[st_z r0] evs0] end.
  destruct (negb (is_boot_ok r0)) eqn:E; intros H; inversion H; subst; auto.
  intros C. apply negb_false_iff in E. congruence.
Qed.
(* ... and never publishes a configuration that does not pass the pre-commit validation *)
Lemma boot_validates var reg g st cfg steps em f st' r evs :
  v_boot_atomic var = true -> do_boot var reg g st cfg steps em f = (st', r, evs) ->
  precommit_ok g cfg = false -> r = RPrecommit /\ running st' = running st.
Proof.
  intros HB. unfold do_boot. rewrite HB. cbv zeta. cbn [andb]. intros H HP. rewrite HP in H.
  simpl in H. inversion H; subst; auto.
Qed.

(* ------------------------------------------------------------------ whole-entry Set (struct-valued patterns) *)
Lemma get_leaf_l_filter_none (f : path * sval -> bool) l q :
  (forall v, f (q, v) = false) -> get_leaf_l (filter f l) q = None.
Proof.
  intros Hf. induction l as [|[r v] l IH]; simpl; auto.
  destruct (f (r, v)) eqn:E; simpl; auto.
  destruct (path_eqb r q) eqn:Q; auto. apply path_eqb_eq in Q; subst. rewrite Hf in E. discriminate.
Qed.
Lemma get_leaf_put_obj_other p fs q : (forall f, In f fs -> q <> p ++ [fst f]) ->
  forall s, get_leaf (put_obj s p fs) q = get_leaf s q.
Proof.
  unfold put_obj. induction fs as [|f fs IH]; intros H s; simpl; auto.
  rewrite IH by (intros; apply H; right; auto). apply get_set_other. intros E. apply (H f); auto. left; auto.
Qed.
(* a successful Set of a struct-valued path replaces the entry: no leaf and no container of the old entry
   survives below it, whatever variant *)
Lemma obj_set_replaces var s h p fs s' :
  h_kind h = KObj \/ h_kind h = KObjF -> set_store var s h p (VObj fs) = (s', true) ->
  (forall q, is_prefix_b p q = true -> (forall f, In f fs -> q <> p ++ [fst f]) -> get_leaf s' q = None) /\
  (forall c, has_cont s' c = true -> is_prefix_b p c = true -> c = p) /\
  (forall q, is_prefix_b p q = false -> get_leaf s' q = get_leaf s q).
Proof.
  intros HK H. pose proof H as H0. unfold set_store in H.
  assert (E : (put_obj (clear_below (add_conts s p (h_conts h)) p) p fs, true) = (s', true))
    by (destruct HK as [HK|HK]; rewrite HK in H; exact H).
  clear H. inversion E; subst; clear E.
  repeat split.
  - intros q Hb Hf. rewrite get_leaf_put_obj_other by assumption.
    unfold get_leaf, clear_below; simpl. apply get_leaf_l_filter_none. intros v. simpl. rewrite Hb. reflexivity.
  - intros c Hc Hb. unfold has_cont in Hc. rewrite conts_put_obj in Hc.
    fold (has_cont (clear_below (add_conts s p (h_conts h)) p) c) in Hc.
    rewrite has_cont_clear_below, Hb in Hc. apply andb_true_iff in Hc as [_ Hc]. simpl in Hc.
    apply path_eqb_eq in Hc. exact Hc.
  - intros q Hb. eapply set_store_leaf_frame; eauto.
Qed.

(* ------------------------------------------------------------------ the administrative methods *)
Lemma admin_effects g st :
  (forall fl, let st' := fst (do_save_startup g st fl) in
     running st' = running st /\ startup st' = running st /\ sessions st' = sessions st /\ lock st' = lock st /\
     frr st' = frr st /\ vfiles st' = vfiles st /\ vmem st' = vmem st /\
     sfile st' = (if fl then sfile st else Some (scrub g (running st))) /\
     snd (do_save_startup g st fl) = (if fl then RSaveFail else ROk)) /\
  (let st' := do_reset st in
     running st' = empty_store /\ sessions st' = [] /\ lock st' = None /\ startup st' = startup st /\
     sfile st' = sfile st /\ frr st' = frr st /\ vfiles st' = vfiles st /\ vmem st' = vmem st /\ next_id st' = next_id st) /\
  (forall k, let '(st', r, evs) := do_reload_frr st k in
     persisted st' = persisted st /\ sessions st' = sessions st /\ lock st' = lock st /\
     (frr st' = frr st \/ frr st' = Some (running st)) /\ (r = ROk -> frr st' = Some (running st))).
Proof.
  split; [|split].
  - intros fl. unfold do_save_startup; simpl. destruct fl; repeat split.
  - unfold do_reset; simpl. repeat split.
  - intros k. unfold do_reload_frr. destruct k as [|[|[|k]]]; simpl; repeat split; auto; try discriminate.
Qed.
