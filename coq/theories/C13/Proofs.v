From OV Require Import Common.Base C13.Model.
Lemma tick_running : forall st d, running (do_tick st d) = running st.
Proof. reflexivity. Qed.
