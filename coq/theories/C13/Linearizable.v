(* C13/Linearizable.v — the generic theorem of Atomic.v instantiated for the ConfigManager:
   ONE cell (the whole manager state) guarded by ONE lock (cd.mu, a sync.RWMutex).

   Go methods covered, checked in pkg/configmgr/conf.go at /repo HEAD — each one starts with
   `cd.mu.Lock(); defer cd.mu.Unlock()` (writers) or `cd.mu.RLock(); defer cd.mu.RUnlock()` (readers)
   and touches manager state only in between:
     writers  CreateCandidateSession (:87)  CloseCandidateSession (:107)  Set (:124)  Delete (:166)
              Commit (:250)  Rollback (:500)                      -> [CMut o], body = Model.step
     readers  GetRunning (:645)  GetStartup (:714)  ListVersions (:638)   -> [CGetRunning] ...
   The passing of time ([OTick]) is an environment step; every method samples time.Now() inside its
   critical section, so advancing the clock between critical sections is faithful.
   NOT covered (they do not hold the lock throughout, or take none): LoadStartupConfig,
   ApplyLoadedConfig (lock / unlock / lock, reads cd.versions and writes CommitMsg unlocked),
   GetRegistry, IsMixedAccessSVLAN and LookupSubscriberGroup (atomic.Value, lock-free).
   GetRunning/GetStartup return a pointer that the caller reads after RUnlock: this is safe exactly
   because a published configuration object is never written again, which is the no-alias part of
   Proofs.Inv (and false for the Defective variant, i.e. the tree before 1761ed1, after a failed startup write).

   What the theorem assumes about Go: sync.RWMutex provides reader/writer mutual exclusion
   ([can_acquire]) and the deferred unlock runs.  The claim is tied to the code by the concurrent
   harness mode (goroutines racing the same methods; the driver searches a sequential order). *)
From OV Require Import Common.Base C13.Model C13.Proofs C13.Atomic.

Inductive cop := CMut (o : op) | CGetRunning | CGetStartup | CListVersions.
Inductive cret := RMut (r : res) (evs : list ev) | RStore (s : Model.store) | RVersions (l : list vrec).

Definition c_is_read (o : cop) : bool := match o with CMut _ => false | _ => true end.
Definition c_lock (_ : cop) : unit := tt.
Definition unit_eq_dec (a b : unit) : {a = b} + {a <> b}.
Proof. left. destruct a, b. reflexivity. Defined.

Section Inst.
  Variables (var : variant) (reg : registry) (g : guard).

  (* the critical section of each method: one step of the sequential model *)
  Definition mgr_step (st : state) (o : cop) : state * cret :=
    match o with
    | CMut o' => (fst (fst (Model.step var reg g st o')), RMut (snd (fst (Model.step var reg g st o'))) (snd (Model.step var reg g st o')))
    | CGetRunning => (st, RStore (running st))
    | CGetStartup => (st, RStore (startup st))
    | CListVersions => (st, RVersions (vmem st))
    end.

  Lemma mgr_read_pure : forall c o, c_is_read o = true -> fst (mgr_step c o) = c.
  Proof. intros c [o| | |] H; simpl in *; try reflexivity. discriminate. Qed.

  Definition m_config := config unit state cop cret.
  Definition m_event := event cop cret.
  Definition m_entry := entry cop cret.
  Definition m_step : m_config -> m_config -> Prop := Atomic.step unit_eq_dec c_lock c_is_read mgr_step.
  Definition m_reach (st0 : state) (progs : nat -> list cop) : m_config -> Prop :=
    reach unit_eq_dec c_lock c_is_read mgr_step (fun _ => st0) progs.

  (* legality of a sequential history for the sequential manager model *)
  Fixpoint mgr_legal (st : state) (lin : list m_entry) : Prop :=
    match lin with
    | [] => True
    | e :: rest => snd (mgr_step st (e_op e)) = e_ret e /\ mgr_legal (fst (mgr_step st (e_op e))) rest
    end.

  Definition mgr_linearizable (st0 : state) (h : list m_event) : Prop :=
    exists lin : list m_entry,
      (forall t, proj t h = proj t (expand lin)) /\
      mgr_legal st0 lin /\
      NoDup (ids lin) /\
      (forall a r b o, before (ERes a r) (EInv b o) h -> before a b (ids lin)).

  Lemma legal_mgr_legal lin : forall (s : unit -> state) st, s tt = st ->
    legal unit_eq_dec c_lock mgr_step s lin -> mgr_legal st lin.
  Proof.
    induction lin as [|e rest IH]; intros s st Hs; cbn [legal mgr_legal]; [auto|].
    unfold gstep, c_lock. cbn [fst snd]. rewrite Hs. intros [H1 H2]. split; [exact H1|].
    eapply IH; [|exact H2]. unfold upd. destruct (unit_eq_dec tt tt); [reflexivity|congruence].
  Qed.

  Lemma mgr_ops_linearizable st0 progs c :
    m_reach st0 progs c -> quiescent c -> mgr_linearizable st0 (c_hist c).
  Proof.
    intros R Q.
    destruct (@atomic_ops_linearizable _ _ _ _ unit_eq_dec c_lock c_is_read mgr_step mgr_read_pure _ _ _ R Q)
      as [lin [A [B [C D]]]].
    exists lin. repeat split; auto. eapply legal_mgr_legal; [|exact B]. reflexivity.
  Qed.
End Inst.

(* ---- non-vacuity: two goroutines race for the lock; the two Create calls overlap in real time
        (both invoked before either responds); the loser is told "locked"; then the winner edits and a
        reader runs concurrently with the commit ---- *)
Definition lx_reg : registry :=
  [ {| h_pat := [PLit 1; PWild; PLit 2]; h_kind := KInt; h_conts := [1; 2]%nat; h_deps := []; h_frr := false; h_typed := false |} ]%N.
Definition lx_p : path := [1; 3; 2]%N.
Definition lx_progs (t : nat) : list cop :=
  match t with
  | 0%nat => [CMut OCreate; CMut (OSet 1 lx_p (VInt 1500) false); CMut (OCommit 1 no_faults)]
  | 1%nat => [CMut OCreate; CGetRunning]
  | _ => []
  end.
Definition lx_st0 : state := init_state empty_store.

Lemma lx_reach_next {progs c c'} :
  m_reach Repaired lx_reg no_guard lx_st0 progs c -> m_step Repaired lx_reg no_guard c c' ->
  m_reach Repaired lx_reg no_guard lx_st0 progs c'.
Proof. intros R S. eapply Relation_Operators.rtn1_trans; eauto. Qed.

Ltac lx_acq := let t' := fresh in let o' := fresh in let Hne := fresh in let Hh := fresh in
  intros t' o' Hne Hh; destruct t' as [|[|t']]; simpl in Hh; try discriminate; congruence.
Ltac lx_go R n ctor :=
  eapply lx_reach_next in R;
  [| unfold m_step; eapply ctor with (t := n); [reflexivity | try lx_acq ..]].

Lemma lx_reachable : exists c, m_reach Repaired lx_reg no_guard lx_st0 lx_progs c /\ quiescent c /\
  exists r0 r2 s1 l,
    c_hist c = [EInv (0, 0)%nat (CMut OCreate); EInv (1, 0)%nat (CMut OCreate);
                ERes (1, 0)%nat (RMut (RId 1) []); ERes (0, 0)%nat (RMut RLocked []);
                EInv (0, 1)%nat (CMut (OSet 1 lx_p (VInt 1500) false)); ERes (0, 1)%nat r0;
                EInv (0, 2)%nat (CMut (OCommit 1 no_faults)); EInv (1, 1)%nat CGetRunning;
                ERes (1, 1)%nat (RStore s1); ERes (0, 2)%nat (RMut r2 l)] /\
    r0 = RMut ROk [] /\ r2 = ROk /\ get_leaf s1 lx_p = None /\
    get_leaf (running (c_sh c tt)) lx_p = Some (SInt 1500).
Proof.
  assert (R : m_reach Repaired lx_reg no_guard lx_st0 lx_progs (init (fun _ => lx_st0) lx_progs)) by constructor.
  unfold init in R.
  lx_go R 0%nat s_invoke. lx_go R 1%nat s_invoke.
  lx_go R 1%nat s_acquire. lx_go R 1%nat s_read. lx_go R 1%nat s_finish. lx_go R 1%nat s_unlock. lx_go R 1%nat s_respond.
  lx_go R 0%nat s_acquire. lx_go R 0%nat s_read. lx_go R 0%nat s_finish. lx_go R 0%nat s_unlock. lx_go R 0%nat s_respond.
  (* thread 0 edits the session thread 1 created (shared session id), then commits while thread 1 reads *)
  lx_go R 0%nat s_invoke.
  lx_go R 0%nat s_acquire. lx_go R 0%nat s_read. lx_go R 0%nat s_finish. lx_go R 0%nat s_unlock. lx_go R 0%nat s_respond.
  lx_go R 0%nat s_invoke. lx_go R 1%nat s_invoke.
  lx_go R 1%nat s_acquire. lx_go R 1%nat s_read. lx_go R 1%nat s_finish. lx_go R 1%nat s_unlock. lx_go R 1%nat s_respond.
  lx_go R 0%nat s_acquire. lx_go R 0%nat s_read. lx_go R 0%nat s_finish. lx_go R 0%nat s_unlock. lx_go R 0%nat s_respond.
  eexists. split; [exact R|]. split.
  - intros t. destruct t as [|[|t]]; reflexivity.
  - do 4 eexists. split; [vm_compute; reflexivity|]. vm_compute. repeat split.
Qed.
