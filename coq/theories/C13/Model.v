(* C13/Model.v — executable model of the configuration manager
     pkg/configmgr/conf.go      CreateCandidateSession, CloseCandidateSession, Set, Delete, Commit,
                                rollbackChanges, resolveDepPath, sortChangesByDependencies, Rollback,
                                createSessionUnlocked, expireIdleSessionsUnlocked
     pkg/configmgr/path.go      getValueFromConfig / setValueInConfig / convertValue (scalar leaves)
     pkg/configmgr/format.go    FormatChanges (added / modified / no-op classification)
     pkg/configmgr/versions.go  saveVersion (as a fallible write)
     pkg/handlers/conf/handler.go  Registry.GetHandler / matchPattern
   Definitions only; proofs are in Proofs.v.

   A configuration is projected to (containers, non-zero scalar leaves) — exactly what the harness
   prints from the JSON form of config.Config.  Handler outcomes, the routing daemon and the two file
   writes are fault oracles carried by the Commit operation. *)
From OV Require Import Common.Base.

Definition seg := N.                       (* an interned path segment *)
Definition path := list seg.
Definition WILD : seg := 0%N.              (* the segment text "<*>" *)

Inductive pseg := PLit (s : seg) | PWild.
Definition pattern := list pseg.

Inductive kind := KInt | KU32 | KStr | KBool | KList (* []string *)
                | KEntry (* map entry holding a pointer to a struct, set with a pointer to an all-zero struct *)
                | KObj (* map entry set as a whole with a pointer to a struct, e.g. interfaces.<*> := &InterfaceConfig{...} *)
                | KObjF (* pointer-typed struct FIELD set as a whole, e.g. interfaces.<*>.ipv6 := &IPv6Config{...} *) | KInternal
                | KAny.   (* a leaf of a plugin namespace: in a candidate (a JSON round trip of running) the
                             plugin config is an untyped map, so any value is stored as it is *)
(* a stored scalar; the zero value of every kind is represented by absence *)
Inductive sval := SInt (z : Z) | SStr (s : list N) | SBool (b : bool) | SList (l : list (list N)).
(* the Go value handed to Set: int, uint32, string, bool *)
Inductive value := VInt (z : Z) | VU32 (z : Z) | VStr (s : list N) | VBool (b : bool) | VList (l : list (list N))
                 | VPtr    (* pointer to an all-zero struct, e.g. &protocols.BGPNetwork{} *)
                 | VObj (fs : list (seg * sval)).   (* pointer to a struct: its non-zero scalar fields by json tag *)

Record hspec := {
  h_pat : pattern;
  h_kind : kind;
  h_conts : list nat;      (* prefix lengths that are JSON objects created on the way to the leaf *)
  h_deps : list nat;       (* Dependencies(): indices into the registry *)
  h_frr : bool;            (* Apply marks "routing daemon reload needed" *)
  h_typed : bool           (* the pattern has a typed wildcard (<*:ip>, <*:prefix>): map keys are encoded in
                              paths, but the walker builds its paths from the raw keys and never finds the handler *)
}.
Definition registry := list hspec.

(* ---------- equality helpers ---------- *)
Fixpoint path_eqb (a b : path) : bool :=
  match a, b with
  | [], [] => true
  | x :: a', y :: b' => N.eqb x y && path_eqb a' b'
  | _, _ => false
  end.
Definition sval_eqb (a b : sval) : bool :=
  match a, b with
  | SInt x, SInt y => Z.eqb x y
  | SStr x, SStr y => path_eqb x y
  | SBool x, SBool y => Bool.eqb x y
  | SList x, SList y => (Nat.eqb (length x) (length y)) && forallb (fun p => path_eqb (fst p) (snd p)) (combine x y)
  | _, _ => false
  end.
Definition osval_eqb (a b : option sval) : bool :=
  match a, b with
  | None, None => true
  | Some x, Some y => sval_eqb x y
  | _, _ => false
  end.

(* [c] is a prefix of [p] (or equal) *)
Fixpoint is_prefix_b (c p : path) : bool :=
  match c, p with
  | [], _ => true
  | x :: c', y :: p' => N.eqb x y && is_prefix_b c' p'
  | _, _ => false
  end.

(* ---------- the projected datastore ---------- *)
Record store := { leaves : list (path * sval); conts : list path }.
Definition empty_store : store := {| leaves := []; conts := [] |}.

Fixpoint get_leaf_l (l : list (path * sval)) (p : path) : option sval :=
  match l with
  | [] => None
  | (q, v) :: r => if path_eqb q p then Some v else get_leaf_l r p
  end.
Definition get_leaf (s : store) (p : path) : option sval := get_leaf_l (leaves s) p.
Fixpoint remove_leaf_l (l : list (path * sval)) (p : path) : list (path * sval) :=
  match l with
  | [] => []
  | (q, v) :: r => if path_eqb q p then remove_leaf_l r p else (q, v) :: remove_leaf_l r p
  end.
Definition set_leaf (s : store) (p : path) (o : option sval) : store :=
  {| leaves := match o with
               | Some v => (p, v) :: remove_leaf_l (leaves s) p
               | None => remove_leaf_l (leaves s) p
               end;
     conts := conts s |}.
Definition has_cont (s : store) (c : path) : bool := existsb (path_eqb c) (conts s).
Definition add_cont (s : store) (c : path) : store :=
  if has_cont s c then s else {| leaves := leaves s; conts := c :: conts s |}.
Definition add_conts (s : store) (p : path) (ns : list nat) : store :=
  fold_left (fun st n => add_cont st (firstn n p)) ns s.

(* ---------- Registry.GetHandler ---------- *)
Definition pseg_text (x : pseg) : seg := match x with PLit s => s | PWild => WILD end.
Fixpoint match_pattern (pat : pattern) (p : path) : bool :=
  match pat, p with
  | [], [] => true
  | PWild :: pat', _ :: p' => match_pattern pat' p'
  | PLit s :: pat', x :: p' => N.eqb s x && match_pattern pat' p'
  | _, _ => false
  end.
Fixpoint find_idx {A} (f : A -> bool) (l : list A) (i : nat) : option nat :=
  match l with
  | [] => None
  | x :: r => if f x then Some i else find_idx f r (S i)
  end.
(* exact text match first (r.handlers[path]), then the first pattern that matches *)
Definition get_handler (reg : registry) (p : path) : option nat :=
  match find_idx (fun h => path_eqb (map pseg_text (h_pat h)) p) reg 0 with
  | Some i => Some i
  | None => find_idx (fun h => match_pattern (h_pat h) p) reg 0
  end.
Definition dummy_h : hspec :=
  {| h_pat := []; h_kind := KInternal; h_conts := []; h_deps := []; h_frr := false; h_typed := false |}.
Definition hget (reg : registry) (i : nat) : hspec := nth i reg dummy_h.

(* ---------- strconv on byte strings ---------- *)
Definition is_digit (c : N) : bool := (N.leb 48 c && N.leb c 57)%N.
Fixpoint digits_val (acc : Z) (s : list N) : option Z :=
  match s with
  | [] => Some acc
  | c :: r => if is_digit c then digits_val (acc * 10 + Z.of_N (c - 48)) r else None
  end.
Definition parse_digits (s : list N) : option Z :=
  match s with [] => None | _ => digits_val 0 s end.
(* strconv.ParseInt(s, 10, 64) *)
Definition parse_int64 (s : list N) : option Z :=
  match s with
  | 43%N :: r => match parse_digits r with
                 | Some v => if (v <=? 9223372036854775807)%Z then Some v else None
                 | None => None end
  | 45%N :: r => match parse_digits r with
                 | Some v => if (v <=? 9223372036854775808)%Z then Some (- v)%Z else None
                 | None => None end
  | _ => match parse_digits s with
         | Some v => if (v <=? 9223372036854775807)%Z then Some v else None
         | None => None end
  end.
(* strconv.ParseUint(s, 10, 64) *)
Definition parse_uint64 (s : list N) : option Z :=
  match parse_digits s with
  | Some v => if (v <=? 18446744073709551615)%Z then Some v else None
  | None => None
  end.
Definition str_true : list (list N) :=
  [[49]; [116]; [84]; [84;82;85;69]; [116;114;117;101]; [84;114;117;101]]%N.
Definition str_false : list (list N) :=
  [[48]; [102]; [70]; [70;65;76;83;69]; [102;97;108;115;101]; [70;97;108;115;101]]%N.
(* strconv.ParseBool *)
Definition parse_bool (s : list N) : option bool :=
  if existsb (path_eqb s) str_true then Some true
  else if existsb (path_eqb s) str_false then Some false else None.

(* fmt.Sprintf("%v") of an integer *)
Fixpoint dec_digits (fuel : nat) (n : N) (acc : list N) : list N :=
  match fuel with
  | O => acc
  | S f => let acc' := (48 + n mod 10)%N :: acc in
           if (n / 10 =? 0)%N then acc' else dec_digits f (n / 10)%N acc'
  end.
Definition dec_of_Z (z : Z) : list N :=
  match z with
  | Z0 => [48%N]
  | Zpos p => dec_digits (S (N.to_nat (N.log2 (Npos p)))) (Npos p) []
  | Zneg p => 45%N :: dec_digits (S (N.to_nat (N.log2 (Npos p)))) (Npos p) []
  end.

Definition norm_int (z : Z) : option sval := if (z =? 0)%Z then None else Some (SInt z).
Definition norm_str (s : list N) : option sval := match s with [] => None | _ => Some (SStr s) end.
Definition norm_bool (b : bool) : option sval := if b then Some (SBool true) else None.

(* the value is assignable to the field as it is *)
Definition native_of (k : kind) (v : value) : option (option sval) :=
  match k, v with
  | KAny, VStr s => Some (norm_str s)       (* map values: strings and bools compare equal, numbers are *)
  | KAny, VBool b => Some (norm_bool b)     (* float64 after the round trip and never equal an int      *)
  | KInt, VInt z => Some (norm_int z)
  | KU32, VU32 z => Some (norm_int z)
  | KStr, VStr s => Some (norm_str s)
  | KBool, VBool b => Some (norm_bool b)
  | KList, VList l => Some (match l with [] => None | _ => Some (SList l) end)
  | KEntry, VPtr => Some None               (* the entry is a container; nothing is stored at the path itself *)
  | _, _ => None
  end.
(* setValueInConfig's final assignment incl. convertValue: None = "cannot convert" *)
Definition convert (k : kind) (v : value) : option (option sval) :=
  match native_of k v with
  | Some o => Some o
  | None =>
    match k, v with
    | KAny, VInt z => Some (norm_int z)
    | KAny, VU32 z => Some (norm_int z)
    | KStr, VInt z => Some (norm_str (dec_of_Z z))
    | KStr, VU32 z => Some (norm_str (dec_of_Z z))
    | KStr, VBool b => Some (norm_str (if b then [116;114;117;101] else [102;97;108;115;101])%N)
    | KBool, VStr s => match parse_bool s with Some b => Some (norm_bool b) | None => None end
    | KInt, VStr s => match parse_int64 s with Some z => Some (norm_int z) | None => None end
    | KU32, VStr s => match parse_uint64 s with
                      | Some z => Some (norm_int (z mod 4294967296)%Z)   (* Convert(uint32) wraps *)
                      | None => None end
    | _, _ => None
    end
  end.

(* ---------- sessions and the manager state ---------- *)
Record change := {
  c_path : path;
  c_old : option (option sval);   (* None: OldValue == nil; Some o: the typed old value *)
  c_new : value;
  c_same : bool                   (* reflect.DeepEqual(OldValue, NewValue), as FormatChanges evaluates it *)
}.
(* Configuration objects have identity: every *config.Config the manager holds (running, startup, the
   candidate of each session) is a slot (object id, contents).  deepCopyConfig allocates a fresh id; an
   assignment of pointers copies the id; a write through one pointer (Set on a candidate) is a write to
   every slot that carries the same id.  Sharing is therefore a property of the state. *)
Definition oid := N.
Record session := {
  s_id : N;
  s_cand : store;
  s_oid : oid;             (* identity of sess.config *)
  s_changes : list change;
  s_idle : N               (* whole minutes since lastActivity *)
}.
Record vrec := { v_num : N; v_changes : list (bool * path) }.   (* true = add, false = modify *)
Record state := {
  running : store;
  running_oid : oid;
  startup : store;
  startup_oid : oid;
  sfile : option store;             (* the startup file; None = absent *)
  frr : option store;               (* configuration the routing daemon was last loaded with; None = as booted *)
  sessions : list session;
  lock : option N;
  next_id : N;
  next_oid : oid;                   (* allocation counter of deepCopyConfig *)
  vmem : list vrec;                 (* cd.versions *)
  vfiles : list vrec                (* version files on disk *)
}.
(* NewConfigManager: two distinct empty objects.  [shared]: ApplyLoadedConfig publishes the very object
   it keeps as startupConfig (running and startup are one object until the first commit). *)
Definition init_state_gen (r : store) (shared : bool) : state :=
  {| running := r; running_oid := 1%N; startup := r; startup_oid := if shared then 1%N else 2%N;
     sfile := None; frr := None; sessions := []; lock := None; next_id := 0; next_oid := 2%N;
     vmem := []; vfiles := [] |}.
Definition init_state (r : store) : state := init_state_gen r false.

(* One flag per former defect.  /repo HEAD is [Repaired] (all fixed); the other variants exist only for the
   historical [_refuted] witnesses in Properties.v and are not part of the correspondence. *)
Record variant := {
  v_persist_first : bool;   (* Commit writes the startup file before it swaps running (fixed in /repo 1761ed1) *)
  v_set_atomic : bool;      (* a Set that fails in convertValue leaves the candidate untouched (fixed in 61c97e1) *)
  v_frr_restore : bool;     (* a failed routing-daemon reload is followed by a reload of the running config (fixed in e792c74) *)
  v_report_restore : bool;  (* when that restoring reload fails too, the returned error says so (fixed in 4214320) *)
  v_boot_atomic : bool      (* ApplyLoadedConfig validates before it publishes and puts running back when it fails
                               (fixed in ce2c6ad) *)
}.
Definition mkv (a b c d e : bool) : variant :=
  {| v_persist_first := a; v_set_atomic := b; v_frr_restore := c; v_report_restore := d; v_boot_atomic := e |}.
Definition Repaired : variant := mkv true true true true true.          (* /repo HEAD *)
Definition PreAudit2 : variant := mkv true true true false false.         (* before 4214320 and ce2c6ad *)
Definition RestoreUnreported : variant := mkv true true true false true.
Definition BootUnatomic : variant := mkv true true true true false.
Definition FrrDefect : variant := mkv true true false false false.         (* before e792c74 *)
Definition Defective : variant := mkv false false false false false.       (* before every fix *)
Definition PersistDefect : variant := mkv false true true false false.
Definition SetDefect : variant := mkv true false true false false.

(* fault oracle of one Commit.  f_reload: 0 = the reload succeeds, 1 = it fails before it changed the daemon,
   2 = it fails after the daemon has taken the candidate (frr-reload.py applies line by line) *)
Record faults := { f_apply : nat; f_rollback : nat; f_test : bool; f_reload : nat; f_restore : bool;
                   f_startup : bool; f_version : bool }.
(* f_restore: the RESTORING reload (of the running configuration, after a failed reload or a failed startup
   write) fails too — e.g. the daemon is down — without touching the daemon *)
Definition no_faults : faults :=
  {| f_apply := 0; f_rollback := 0; f_test := false; f_reload := 0; f_restore := false; f_startup := false; f_version := false |}.

Inductive bstep := BEdit (add : store) | BSet (p : path) (v : value).

Inductive op :=
| OCreate | OClose (id : N) | ODelete (id : N)
| OSet (id : N) (p : path) (v : value) (vfail : bool)
| OTick (d : N) | ORollback (ver : N) | OCommit (id : N) (f : faults)
(* LoadConfig(id, cfg) where cfg = the session's candidate with the subtree [drop] replaced by [add];
   [emitted] = the order in which the walker emitted changes (Go map iteration order: taken from the
   implementation and checked for admissibility) *)
| OLoad (id : N) (drop : path) (add : store) (emitted : list (path * value))
(* LoadStartupConfig + ApplyLoadedConfig of a start-up configuration [cfg]; [steps] = what
   ProcessSubscriberGroups / ProcessCGNATPools do for it (in-place edits of the object and Sets) *)
| OBoot (cfg : store) (steps : list bstep) (emitted : list (path * value)) (f : faults)
(* exported methods that are no session operations *)
| OSaveStartup (fail : bool)          (* SaveStartup(): startup := deepCopy(running); write the startup file *)
| OReset                              (* ResetForRecovery(): running := empty, sessions and lock dropped (no expiry) *)
| OReloadFRR (k : nat).               (* ReloadFRR(): reload the daemon with running; k as f_reload *)

Inductive res :=
| RId (n : N) | ROk | RLocked | RNoSession | RNoHandler | RInvalid | RSetFail | RCycle | RDepMissing
| RDepErr | RNoChanges | RPrecommit | RApplyFail | RFrrTest | RFrrReload | RStartupSave | RVersionSave
| RFrrReloadU | RStartupSaveU      (* the same, and the error says that restoring the daemon failed too *)
| RBadVersion | RBadVerType | RNotImpl | RModelFuel | RInadmissible | RBootErr | RBootVersion | RSaveFail.

(* the recorded call stream: handler Apply / Rollback calls with their outcome, routing-daemon calls *)
Inductive ev :=
| EApply (p : path) (v : value) (ok : bool) | ERollback (p : path) (v : value) (ok : bool) | EFrrTest | EFrrReload.

Definition idle_limit : N := 15.

Definition set_sessions (st : state) (l : list session) (lk : option N) : state :=
  {| running := running st; running_oid := running_oid st; startup := startup st; startup_oid := startup_oid st;
     sfile := sfile st; frr := frr st; sessions := l; lock := lk; next_id := next_id st; next_oid := next_oid st;
     vmem := vmem st; vfiles := vfiles st |}.
Definition with_sessions := set_sessions.

(* expireIdleSessionsUnlocked *)
Definition alive (s : session) : bool := (s_idle s <? idle_limit)%N.
Definition has_session (l : list session) (id : N) : bool := existsb (fun s => N.eqb (s_id s) id) l.
Definition expire (st : state) : state :=
  set_sessions st (filter alive (sessions st))
    (match lock st with
     | Some o => if has_session (filter (fun s => negb (alive s)) (sessions st)) o then None else Some o
     | None => None end).

Definition find_session (l : list session) (id : N) : option session :=
  find (fun s => N.eqb (s_id s) id) l.
Definition remove_session (l : list session) (id : N) : list session :=
  filter (fun s => negb (N.eqb (s_id s) id)) l.
Definition put_session (l : list session) (s' : session) : list session :=
  map (fun s => if N.eqb (s_id s) (s_id s') then s' else s) l.
Definition release (lk : option N) (id : N) : option N :=
  match lk with Some o => if N.eqb o id then None else Some o | None => None end.
Definition touch (s : session) : session :=
  {| s_id := s_id s; s_cand := s_cand s; s_oid := s_oid s; s_changes := s_changes s; s_idle := 0 |}.

(* a write to the configuration object [o]: every slot holding that object sees it *)
Definition write_obj (st : state) (o : oid) (c : store) : state :=
  {| running := if N.eqb (running_oid st) o then c else running st; running_oid := running_oid st;
     startup := if N.eqb (startup_oid st) o then c else startup st; startup_oid := startup_oid st;
     sfile := sfile st; frr := frr st;
     sessions := map (fun s => if N.eqb (s_oid s) o
                               then {| s_id := s_id s; s_cand := c; s_oid := s_oid s; s_changes := s_changes s; s_idle := s_idle s |}
                               else s) (sessions st);
     lock := lock st; next_id := next_id st; next_oid := next_oid st; vmem := vmem st; vfiles := vfiles st |}.

(* ---------- getValueFromConfig (non-nil?) and OldValue ---------- *)
Definition exists_in (s : store) (h : hspec) (p : path) : bool :=
  match h_kind h with
  | KInternal => false                         (* "field not found": treated as nil *)
  | KObjF => forallb (fun n => has_cont s (firstn n p)) (filter (fun n => (n <? length p)%nat) (h_conts h))
                                               (* a pointer field: field.Interface() of a nil pointer is a non-nil
                                                  interface, so only the containers ABOVE the field count *)
  | KEntry => false                            (* <*:prefix> keys are hex in the path; getValueFromConfig only
                                                  tries DecodeIP/DecodeMAC on a missing key: never found *)
  | _ => forallb (fun n => has_cont s (firstn n p)) (h_conts h)
  end.
Definition old_value (s : store) (h : hspec) (p : path) : option (option sval) :=
  if exists_in s h p then
    match h_kind h with
    | KAny => match get_leaf s p with Some v => Some (Some v) | None => None end   (* missing map key: nil *)
    | _ => Some (get_leaf s p)
    end
  else None.

(* a whole map entry is replaced: everything at or below [p] goes, the container [p] stays *)
Definition clear_below (s : store) (p : path) : store :=
  {| leaves := filter (fun e => negb (is_prefix_b p (fst e))) (leaves s);
     conts := filter (fun c => negb (is_prefix_b p c) || path_eqb c p) (conts s) |}.
Definition put_obj (s : store) (p : path) (fs : list (seg * sval)) : store :=
  fold_left (fun st f => set_leaf st (p ++ [fst f]) (Some (snd f))) fs s.
(* DeepEqual of the old entry with the new struct: the entry's subtree is exactly the new fields *)
Definition subtree_is (s : store) (p : path) (fs : list (seg * sval)) : bool :=
  forallb (fun f => osval_eqb (get_leaf s (p ++ [fst f])) (Some (snd f))) fs &&
  forallb (fun e => negb (is_prefix_b p (fst e)) ||
                    existsb (fun f => path_eqb (fst e) (p ++ [fst f])) fs) (leaves s) &&
  forallb (fun c => negb (is_prefix_b p c) || path_eqb c p) (conts s).

(* reflect.DeepEqual(OldValue, NewValue) *)
Definition same_value (s : store) (h : hspec) (p : path) (v : value) : bool :=
  match old_value s h p with
  | None => false
  | Some o =>
    match h_kind h, v with
    | KObj, VObj fs => subtree_is s p fs
    | KObj, _ => false
    | KObjF, VObj fs => has_cont s p && subtree_is s p fs      (* DeepEqual of a typed nil pointer and a non-nil one is false *)
    | KObjF, _ => false
    | k, _ => match native_of k v with Some n => osval_eqb o n | None => false end
    end
  end.

(* ---------- Set ---------- *)
Definition set_store (var : variant) (s : store) (h : hspec) (p : path) (v : value) : store * bool :=
  match h_kind h with
  | KInternal => (s, true)                     (* parts[0] == "_internal": nothing stored *)
  | KObj =>                                    (* final part is a map key: SetMapIndex(key, value) when the
                                                  value is assignable; convertValue has no struct conversion *)
    let s1 := add_conts s p (h_conts h) in
    match v with
    | VObj fs => (put_obj (clear_below s1 p) p fs, true)
    | _ => (if v_set_atomic var then s else s1, false)
    end
  | KObjF =>                                   (* final part is a struct field of pointer type: field.Set(value) *)
    let s1 := add_conts s p (h_conts h) in
    match v with
    | VObj fs => (put_obj (clear_below s1 p) p fs, true)
    | _ => (if v_set_atomic var then s else s1, false)
    end
  | KAny =>                                    (* only when the namespace is present in cfg.Plugins; otherwise
                                                  the path is looked up in the core struct: "field not found" *)
    if forallb (fun n => has_cont s (firstn n p)) (h_conts h)
    then match convert KAny v with Some o => (set_leaf s p o, true) | None => (s, false) end
    else (s, false)
  | k => let s1 := add_conts s p (h_conts h) in
         match convert k v with
         | Some o => (set_leaf s1 p o, true)
         | None => (if v_set_atomic var then s else s1, false)   (* before 61c97e1: containers were already created *)
         end
  end.

Definition do_set (var : variant) (reg : registry) (st0 : state) (id : N) (p : path) (v : value) (vfail : bool)
  : state * res :=
  let st := expire st0 in
  match find_session (sessions st) id with
  | None => (st, RNoSession)
  | Some s0 =>
    let s := touch s0 in
    let st1 := set_sessions st (put_session (sessions st) s) (lock st) in
    match get_handler reg p with
    | None => (st1, RNoHandler)
    | Some hi =>
      let h := hget reg hi in
      if vfail then (st1, RInvalid) else
      let '(cand', ok) := set_store var (s_cand s) h p v in
      let s' := {| s_id := s_id s; s_cand := s_cand s; s_oid := s_oid s;
                   s_changes := if ok then s_changes s ++ [{| c_path := p; c_old := old_value (s_cand s) h p; c_new := v;
                                                          c_same := same_value (s_cand s) h p v |}]
                                else s_changes s;
                   s_idle := 0 |} in
      (* setValueInConfig writes through sess.config *)
      (write_obj (set_sessions st (put_session (sessions st) s') (lock st)) (s_oid s) cand',
       if ok then ROk else RSetFail)
    end
  end.

(* ---------- resolveDepPath + lookup in the running configuration ---------- *)
Fixpoint wild_values (pat : pattern) (p : path) : list seg :=
  match pat, p with
  | PWild :: pat', x :: p' => x :: wild_values pat' p'
  | PLit _ :: pat', _ :: p' => wild_values pat' p'
  | _, _ => []
  end.
Definition count_wild (pat : pattern) : nat := length (filter (fun x => match x with PWild => true | _ => false end) pat).
Fixpoint build_path (pat : pattern) (vals : list seg) : path :=
  match pat with
  | [] => []
  | PLit s :: pat' => s :: build_path pat' vals
  | PWild :: pat' => match vals with
                     | v :: vals' => v :: build_path pat' vals'
                     | [] => WILD :: build_path pat' []
                     end
  end.
Definition resolve_dep (cur_pat : pattern) (cur : path) (dep : pattern) : path :=
  let vals := wild_values cur_pat cur in
  let k := count_wild dep in
  let vals' := if (k <? length vals)%nat then firstn k vals else vals in
  if (length vals' <? k)%nat then map pseg_text dep        (* Build fails: the raw pattern is looked up *)
  else build_path dep vals'.

(* ---------- sortChangesByDependencies ---------- *)
Definition mem_nat (x : nat) (l : list nat) : bool := existsb (Nat.eqb x) l.

Inductive sort_err := SENoHandler | SEDepMissing | SECycle | SEFuel.

(* the dependency loop of one change: returns updated edges and the in-degree of change i *)
Fixpoint dep_loop (reg : registry) (run : store) (cur_pat : pattern) (cur : path) (seen : list nat)
         (i : nat) (deps : list nat) (edges : list (nat * nat)) (deg : Z)
  : option (list (nat * nat) * Z) :=
  match deps with
  | [] => Some (edges, deg)
  | d :: ds =>
    if mem_nat d seen then dep_loop reg run cur_pat cur seen i ds (edges ++ [(d, i)]) (deg + 1)%Z
    else
      let dh := hget reg d in
      if exists_in run dh (resolve_dep cur_pat cur (h_pat dh))
      then dep_loop reg run cur_pat cur seen i ds edges deg
      else None
  end.

Fixpoint pass1 (reg : registry) (run : store) (chs : list change) (i : nat) (seen : list nat)
         (edges : list (nat * nat)) (degs : list Z) : sum sort_err (list (nat * nat) * list Z * list nat) :=
  match chs with
  | [] => inr (edges, degs, seen)
  | c :: rest =>
    match get_handler reg (c_path c) with
    | None => inl SENoHandler
    | Some hi =>
      let h := hget reg hi in
      let seen' := seen ++ [hi] in
      match dep_loop reg run (h_pat h) (c_path c) seen' i (h_deps h) edges 0 with
      | None => inl SEDepMissing
      | Some (edges', deg) => pass1 reg run rest (S i) seen' edges' (degs ++ [deg])
      end
    end
  end.

Fixpoint dec_at (degs : list Z) (i : nat) : list Z :=
  match degs, i with
  | [], _ => []
  | d :: r, O => (d - 1)%Z :: r
  | d :: r, S k => d :: dec_at r k
  end.
(* for each dependent: inDegree--, enqueue when it reaches exactly 0 *)
Fixpoint relax (dependents : list nat) (degs : list Z) (queue : list nat) : list Z * list nat :=
  match dependents with
  | [] => (degs, queue)
  | j :: r =>
    let degs' := dec_at degs j in
    relax r degs' (if (nth j degs' 1 =? 0)%Z then queue ++ [j] else queue)
  end.
Fixpoint kahn (fuel : nat) (pats : list nat) (edges : list (nat * nat)) (degs : list Z) (queue : list nat)
         (acc : list nat) : option (list nat) :=
  match queue with
  | [] => Some acc
  | cur :: q =>
    match fuel with
    | O => None
    | S f =>
      let pat := nth cur pats O in
      let dependents := map snd (filter (fun e => Nat.eqb (fst e) pat) edges) in
      let '(degs', q') := relax dependents degs q in
      kahn f pats edges degs' q' (acc ++ [cur])
    end
  end.
Fixpoint zero_idx (degs : list Z) (i : nat) : list nat :=
  match degs with
  | [] => []
  | d :: r => if (d =? 0)%Z then i :: zero_idx r (S i) else zero_idx r (S i)
  end.

Definition sort_changes (reg : registry) (run : store) (chs : list change) : sum sort_err (list change) :=
  match chs with
  | [] => inr []
  | _ =>
    match pass1 reg run chs 0 [] [] [] with
    | inl e => inl e
    | inr (edges, degs, pats) =>
      match kahn (S (length chs)) pats edges degs (zero_idx degs 0) [] with
      | None => inl SEFuel
      | Some order =>
        if Nat.eqb (length order) (length chs)
        then inr (map (fun i => nth i chs {| c_path := []; c_old := None; c_new := VBool false; c_same := false |}) order)
        else inl SECycle
      end
    end
  end.

(* ---------- the apply loop, rollbackChanges and the routing daemon ---------- *)
Definition dflt_change : change := {| c_path := []; c_old := None; c_new := VBool false; c_same := false |}.
(* the apply loop of Commit: handler lookup, ApplyWithCallbacks (k-th call fails), reload mark.
   returns (applied changes in order, outcome 0 = all applied / 1 = Apply failed / 2 = no handler, events, reload needed) *)
Fixpoint apply_loop (reg : registry) (chs : list change) (n : nat) (kfail : nat)
         (applied : list change) (evs : list ev) (frr : bool) : list change * nat * list ev * bool :=
  match chs with
  | [] => (applied, 0%nat, evs, frr)
  | c :: rest =>
    match get_handler reg (c_path c) with
    | None => (applied, 2%nat, evs, frr)
    | Some hi =>
      if Nat.eqb (S n) kfail then (applied, 1%nat, evs ++ [EApply (c_path c) (c_new c) false], frr)
      else apply_loop reg rest (S n) kfail (applied ++ [c]) (evs ++ [EApply (c_path c) (c_new c) true])
                      (frr || h_frr (hget reg hi))
    end
  end.
(* rollbackChanges: for i := len(changes)-1; i >= 0; i-- { handler lookup (continue on error); handler.Rollback }
   — the error a Rollback returns is dropped and the loop goes on.  [n] counts Rollback calls, the k-th fails. *)
Fixpoint rollback_loop (reg : registry) (chs : list change) (i : nat) (n : nat) (kfail : nat) : list ev :=
  match i with
  | O => []
  | S j =>
    let c := nth j chs dflt_change in
    match get_handler reg (c_path c) with
    | None => rollback_loop reg chs j n kfail
    | Some _ => ERollback (c_path c) (c_new c) (negb (Nat.eqb (S n) kfail)) :: rollback_loop reg chs j (S n) kfail
    end
  end.
Definition rollback_evs (reg : registry) (applied : list change) (kfail : nat) : list ev :=
  rollback_loop reg applied (length applied) 0 kfail.

(* ---------- FormatChanges ---------- *)
Definition diff_class (reg : registry) (c : change) : option bool :=     (* Some true = add, Some false = modify, None = no-op *)
  match c_old c with
  | None => Some true
  | Some _ => if c_same c then None else Some false
  end.
Fixpoint diff_lines (reg : registry) (chs : list change) (want : bool) : list (bool * path) :=
  match chs with
  | [] => []
  | c :: r => match diff_class reg c with
              | Some b => if Bool.eqb b want then (b, c_path c) :: diff_lines reg r want else diff_lines reg r want
              | None => diff_lines reg r want
              end
  end.
Definition version_changes (reg : registry) (chs : list change) : list (bool * path) :=
  diff_lines reg chs true ++ diff_lines reg chs false.


(* ---------- pre-commit validation ---------- *)
(* What the validators of conf.go:271-282 read from the candidate, for the generated configurations:
   g_mss     ValidateMSSClampParentMTU for one PPPoE group: (interfaces.<parent>, interfaces.<parent>.mtu, required)
   g_sv/g_cv ValidateMatchIndex: two vlan entries of subscriber groups claim the same (svlan, cvlan)
             (entries are the containers that carry an svlan leaf; single-number svlans and "any"/number
             cvlans only, so equal claims are equal leaves — ranges and parsing are C14's subject)
   g_hidden  segments of fields that are not serialised (json:"-"): dropped from the startup file
   g_sa      the SubscriberAccess flag: scrubPersistedConfig drops such subinterfaces from the file *)
Record guard := {
  g_mss : option (path * path * Z);
  g_sv : seg; g_cv : seg;
  g_hidden : list seg;
  g_sa : seg
}.
Definition no_guard : guard := {| g_mss := None; g_sv := WILD; g_cv := WILD; g_hidden := []; g_sa := WILD |}.

Definition mss_ok (g : guard) (cand : store) : bool :=
  match g_mss g with
  | None => true
  | Some (cp, mp, req) =>
    has_cont cand cp &&
    (let m := match get_leaf cand mp with Some (SInt z) => z | _ => 0%Z end in
     let m16 := if (m =? 0)%Z then 1500%Z else (m mod 65536)%Z in      (* uint16(parent.MTU) *)
     (req <=? m16)%Z)
  end.
(* GetSVLANs / GetCVLAN for single numbers: 1..4094; cvlan "" / "any" = wildcard; anything else is an error
   and, since /repo 461c9d7, ValidateMatchIndex REJECTS the configuration (before that it skipped the entry);
   ranges "a-b" are C14's subject and are not generated here *)
Definition vlan_of (s : list N) : option Z :=
  match parse_digits s with
  | Some z => if ((1 <=? z) && (z <=? 4094))%Z then Some z else None
  | None => None
  end.
Definition s_any : list N := [97; 110; 121]%N.
Definition claim_of (sv cv : option sval) : list (option sval * option sval) :=
  match sv with
  | Some (SStr s) =>
    match vlan_of s with
    | Some z =>
      match cv with
      | None => [(Some (SInt z), None)]
      | Some (SStr c) => if path_eqb c s_any then [(Some (SInt z), None)]
                         else match vlan_of c with Some y => [(Some (SInt z), Some (SInt y))] | None => [] end
      | _ => []
      end
    | None => []
    end
  | _ => []
  end.
Definition claims (g : guard) (cand : store) : list (option sval * option sval) :=
  flat_map (fun c => claim_of (get_leaf cand (c ++ [g_sv g])) (get_leaf cand (c ++ [g_cv g]))) (conts cand).
Definition claim_eqb (a b : option sval * option sval) : bool :=
  osval_eqb (fst a) (fst b) && osval_eqb (snd a) (snd b).
Fixpoint has_dup (l : list (option sval * option sval)) : bool :=
  match l with
  | [] => false
  | x :: r => existsb (claim_eqb x) r || has_dup r
  end.
Definition range_bad (g : guard) (cand : store) : bool :=
  existsb (fun c => match get_leaf cand (c ++ [g_sv g]) with
                    | Some sv => match claim_of (Some sv) (get_leaf cand (c ++ [g_cv g])) with [] => true | _ => false end
                    | None => false end) (conts cand).
Definition precommit_ok (g : guard) (cand : store) : bool :=
  mss_ok g cand && negb (range_bad g cand) && negb (has_dup (claims g cand)).

(* ---------- what SaveYAML(scrubPersistedConfig(cfg)) leaves in the startup file ---------- *)
Definition hidden_path (g : guard) (p : path) : bool := existsb (fun x => existsb (N.eqb x) (g_hidden g)) p.
Definition scrub (g : guard) (s : store) : store :=
  let dropped := filter (fun c => match get_leaf s (c ++ [g_sa g]) with Some (SBool true) => true | _ => false end) (conts s) in
  let keep p := negb (hidden_path g p) && negb (existsb (fun c => is_prefix_b c p) dropped) in
  {| leaves := filter (fun e => keep (fst e)) (leaves s); conts := filter keep (conts s) |}.

Definition set_frr (x : state) (d : option store) : state :=
  {| running := running x; running_oid := running_oid x; startup := startup x; startup_oid := startup_oid x;
     sfile := sfile x; frr := d; sessions := sessions x; lock := lock x; next_id := next_id x;
     next_oid := next_oid x; vmem := vmem x; vfiles := vfiles x |}.

(* ---------- Commit ---------- *)
Definition do_commit (var : variant) (reg : registry) (g : guard) (st0 : state) (id : N) (f : faults)
  : state * res * list ev :=
  let st := expire st0 in
  match find_session (sessions st) id with
  | None => (st, RNoSession, [])
  | Some s0 =>
    let s := touch s0 in
    let st1 := set_sessions st (put_session (sessions st) s) (lock st) in
    match sort_changes reg (running st) (s_changes s) with
    | inl SENoHandler => (st1, RDepErr, [])
    | inl SEDepMissing => (st1, RDepMissing, [])
    | inl SECycle => (st1, RCycle, [])
    | inl SEFuel => (st1, RModelFuel, [])
    | inr [] => (st1, RNoChanges, [])
    | inr sorted =>
      if negb (precommit_ok g (s_cand s)) then (st1, RPrecommit, []) else
      let '(applied, outcome, evs, need) := apply_loop reg sorted 0 (f_apply f) [] [] false in
      let rb := rollback_evs reg applied (f_rollback f) in
      let with_frr := set_frr in
      match outcome with
      | 2%nat => (st1, RNoHandler, evs ++ rb)
      | 1%nat => (st1, RApplyFail, evs ++ rb)
      | _ =>
      if need && f_test f then (st1, RFrrTest, evs ++ [EFrrTest] ++ rb) else
      let cand := s_cand s in
      if need && negb (Nat.eqb (f_reload f) 0) then
        (* reloadFRR(sess.config) failed; f_reload = 2: the daemon has taken the candidate nevertheless *)
        let d1 := if Nat.eqb (f_reload f) 2 then Some cand else frr st in
        if v_frr_restore var
        then
          if f_restore f
          then (with_frr st1 d1, if v_report_restore var then RFrrReloadU else RFrrReload,
                evs ++ [EFrrTest; EFrrReload; EFrrReload] ++ rb)          (* restore attempted, failed: logged *)
          else (with_frr st1 (Some (running st)), RFrrReload, evs ++ [EFrrTest; EFrrReload; EFrrReload] ++ rb)
        else (with_frr st1 d1, RFrrReload, evs ++ [EFrrTest; EFrrReload] ++ rb)
      else
      let evs1 := if need then evs ++ [EFrrTest; EFrrReload] else evs in
      let d_ok := if need then Some cand else frr st in
      let lines := version_changes reg (s_changes s) in
      let ver := {| v_num := N.of_nat (S (length (vmem st))); v_changes := lines |} in
      let closed := remove_session (sessions st) id in
      let lk := release (lock st) id in
      let fresh := (next_oid st + 1)%N in
      (* the committed state: running IS the session's object, startup a fresh copy of it *)
      let committed (ss : list session) (l : option N) (file : option store) (vm vf : list vrec) : state :=
        {| running := cand; running_oid := s_oid s; startup := cand; startup_oid := fresh; sfile := file;
           frr := d_ok; sessions := ss; lock := l; next_id := next_id st; next_oid := fresh; vmem := vm; vfiles := vf |} in
      if negb (v_persist_first var) then
        (* before 1761ed1: swap first, then persist; on a failed write the session stays open *)
        if f_startup f then
          (committed (put_session (sessions st) s) (lock st) (sfile st) (vmem st) (vfiles st), RStartupSave, evs1)
        else
          match lines with
          | [] => (committed closed lk (Some (scrub g cand)) (vmem st) (vfiles st), ROk, evs1)
          | _ =>
            if f_version f
            then (committed closed lk (Some (scrub g cand)) (vmem st ++ [ver]) (vfiles st), RVersionSave, evs1)
            else (committed closed lk (Some (scrub g cand)) (vmem st ++ [ver]) (vfiles st ++ [ver]), ROk, evs1)
          end
      else
        (* persist first; a failed startup write puts the daemon back on running, rolls the handlers back
           and leaves every datastore alone; a failed version write is logged *)
        if f_startup f then
          if need && f_restore f
          then (with_frr st1 (Some cand), if v_report_restore var then RStartupSaveU else RStartupSave,
                (evs1 ++ [EFrrReload]) ++ rb)                             (* the daemon keeps the candidate *)
          else
          (with_frr st1 (if need then Some (running st) else frr st), RStartupSave,
           (if need then evs1 ++ [EFrrReload] else evs1) ++ rb)
        else
          match lines with
          | [] => (committed closed lk (Some (scrub g cand)) (vmem st) (vfiles st), ROk, evs1)
          | _ => (committed closed lk (Some (scrub g cand)) (vmem st ++ [ver])
                            (if f_version f then vfiles st else vfiles st ++ [ver]), ROk, evs1)
          end
      end
    end
  end.

(* ---------- the other operations ---------- *)
Definition do_create (st0 : state) : state * res :=
  let st := expire st0 in
  match lock st with
  | Some _ => (st, RLocked)
  | None =>
    let id := (next_id st + 1)%N in
    let o := (next_oid st + 1)%N in                      (* deepCopyConfig(runningConfig) *)
    ({| running := running st; running_oid := running_oid st; startup := startup st; startup_oid := startup_oid st;
        sfile := sfile st; frr := frr st;
        sessions := sessions st ++ [{| s_id := id; s_cand := running st; s_oid := o; s_changes := []; s_idle := 0 |}];
        lock := Some id; next_id := id; next_oid := o; vmem := vmem st; vfiles := vfiles st |}, RId id)
  end.
Definition do_close (st0 : state) (id : N) : state * res :=
  let st := expire st0 in
  if has_session (sessions st) id
  then (set_sessions st (remove_session (sessions st) id) (release (lock st) id), ROk)
  else (st, RNoSession).
Definition do_delete (st0 : state) (id : N) : state * res :=
  let st := expire st0 in
  match find_session (sessions st) id with
  | None => (st, RNoSession)
  | Some s => (set_sessions st (put_session (sessions st) (touch s)) (lock st), RNotImpl)
  end.
Definition do_tick (st : state) (d : N) : state :=
  set_sessions st (map (fun s => {| s_id := s_id s; s_cand := s_cand s; s_oid := s_oid s; s_changes := s_changes s;
                                    s_idle := (s_idle s + d)%N |}) (sessions st)) (lock st).
(* Rollback(toVersion): version records never carry a configuration, so after creating its session (a deep
   copy of running) the call always ends in "invalid config type"; the session counter has moved *)
Definition do_rollback (st0 : state) (ver : N) : state * res :=
  let st := expire st0 in
  if (ver =? 0)%N || (N.of_nat (length (vmem st)) <? ver)%N then (st, RBadVersion)
  else ({| running := running st; running_oid := running_oid st; startup := startup st; startup_oid := startup_oid st;
           sfile := sfile st; frr := frr st; sessions := sessions st; lock := lock st;
           next_id := (next_id st + 1)%N; next_oid := (next_oid st + 1)%N; vmem := vmem st; vfiles := vfiles st |},
        RBadVerType).

(* ---------- LoadConfig (conf.go:779-808) and the walker (walk.go) ---------- *)
Definition value_eqb (a b : value) : bool :=
  match a, b with
  | VInt x, VInt y => Z.eqb x y
  | VU32 x, VU32 y => Z.eqb x y
  | VStr x, VStr y => path_eqb x y
  | VBool x, VBool y => Bool.eqb x y
  | VList x, VList y => (Nat.eqb (length x) (length y)) && forallb (fun p => path_eqb (fst p) (snd p)) (combine x y)
  | VPtr, VPtr => true
  | VObj x, VObj y =>                         (* the same fields, in any order *)
    let feq (a b : seg * sval) := N.eqb (fst a) (fst b) && sval_eqb (snd a) (snd b) in
    Nat.eqb (length x) (length y) && forallb (fun a => existsb (feq a) y) x && forallb (fun b => existsb (fun a => feq a b) x) y
  | _, _ => false
  end.
Definition pv_eqb (a b : path * value) : bool := path_eqb (fst a) (fst b) && value_eqb (snd a) (snd b).
Fixpoint remove_one (x : path * value) (l : list (path * value)) : option (list (path * value)) :=
  match l with
  | [] => None
  | y :: r => if pv_eqb x y then Some r else match remove_one x r with Some r' => Some (y :: r') | None => None end
  end.
Fixpoint perm_b (a b : list (path * value)) : bool :=
  match a with
  | [] => match b with [] => true | _ => false end
  | x :: a' => match remove_one x b with Some b' => perm_b a' b' | None => false end
  end.
(* what emitStructFields emits for a configuration: every non-zero field whose path has a handler, with
   the typed field value (a []string field: one change per element); every map entry whose path has a
   handler.  The ORDER is struct order / Go map order and is not determined here. *)
Definition emit_leaf (reg : registry) (e : path * sval) : list (path * value) :=
  match get_handler reg (fst e) with
  | None => []
  | Some hi =>
    if h_typed (hget reg hi) then [] else
    match h_kind (hget reg hi), snd e with
    | KInt, SInt z => [(fst e, VInt z)]
    | KU32, SInt z => [(fst e, VU32 z)]
    | KStr, SStr x => [(fst e, VStr x)]
    | KBool, SBool b => [(fst e, VBool b)]
    | KList, SList l => map (fun x => (fst e, VStr x)) l
    | _, _ => []
    end
  end.
(* a struct-valued path with a handler (map entry: walkMap; non-nil pointer field: walkValue) is emitted with the
   pointer itself; the token shows the struct's direct scalar fields and "?" (SList []) for anything nested *)
Definition last_seg (p : path) : seg := last p WILD.
Definition obj_fields (cfg : store) (c : path) : list (seg * sval) :=
  flat_map (fun e => if (Nat.eqb (length (fst e)) (S (length c))) && is_prefix_b c (fst e)
                     then [(last_seg (fst e), match snd e with SList _ => SList [] | v => v end)] else []) (leaves cfg) ++
  flat_map (fun d => if (Nat.eqb (length d) (S (length c))) && is_prefix_b c d then [(last_seg d, SList [])] else []) (conts cfg).
Definition emit_cont (reg : registry) (cfg : store) (c : path) : list (path * value) :=
  match get_handler reg c with
  | Some hi => if h_typed (hget reg hi) then [] else
               match h_kind (hget reg hi) with KObj | KObjF => [(c, VObj (obj_fields cfg c))] | _ => [] end
  | None => []
  end.
Definition expected_emit (reg : registry) (cfg : store) : list (path * value) :=
  flat_map (emit_leaf reg) (leaves cfg) ++ flat_map (emit_cont reg cfg) (conts cfg).
  (* map entries under typed wildcards (KEntry) are never emitted: the walker builds paths from raw keys *)

(* cfg := candidate with the subtree under [drop] removed and the entries of [add] put in *)
Definition graft (s : store) (drop : path) (add : store) : store :=
  let keep p := negb (is_prefix_b drop p) in
  {| leaves := filter (fun e => keep (fst e)) (leaves s) ++ leaves add;
     conts := filter keep (conts s) ++ conts add |}.
Definition merge (s : store) (add : store) : store :=
  fold_left (fun st e => set_leaf st (fst e) (Some (snd e))) (leaves add)
            (fold_left add_cont (conts add) s).

(* LoadConfig proper: the session's changes are REPLACED by what the walker emits, the candidate becomes
   the caller's object [o] with contents [cfg] *)
Definition load_core (reg : registry) (st0 : state) (id : N) (cfg : store) (o : oid)
           (emitted : list (path * value)) : state * res :=
  let st := expire st0 in
  match find_session (sessions st) id with
  | None => (st, RNoSession)
  | Some s =>
    if negb (perm_b emitted (expected_emit reg cfg))
    then (set_sessions st (put_session (sessions st) (touch s)) (lock st), RInadmissible)
    else
      (set_sessions st (put_session (sessions st)
         {| s_id := s_id s; s_cand := cfg; s_oid := o;
            s_changes := map (fun e => {| c_path := fst e; c_old := None; c_new := snd e; c_same := false |}) emitted;
            s_idle := 0 |}) (lock st), ROk)
  end.
Definition bump_oid (st : state) : state :=
  {| running := running st; running_oid := running_oid st; startup := startup st; startup_oid := startup_oid st;
     sfile := sfile st; frr := frr st; sessions := sessions st; lock := lock st; next_id := next_id st;
     next_oid := (next_oid st + 1)%N; vmem := vmem st; vfiles := vfiles st |}.
Definition do_load (reg : registry) (st0 : state) (id : N) (drop : path) (add : store)
           (emitted : list (path * value)) : state * res :=
  match find_session (sessions (expire st0)) id with
  | None => (expire st0, RNoSession)
  | Some s => load_core reg (bump_oid st0) id (graft (s_cand s) drop add) (next_oid st0 + 1)%N emitted
  end.

(* ---------- LoadStartupConfig + ApplyLoadedConfig (startup.go) ---------- *)
Definition obj_store (st : state) (o : oid) : store :=
  if N.eqb (running_oid st) o then running st
  else match find (fun s => N.eqb (s_oid s) o) (sessions st) with Some s => s_cand s | None => startup st end.
Fixpoint boot_steps (var : variant) (reg : registry) (st : state) (id : N) (o : oid) (steps : list bstep)
  : state * bool :=
  match steps with
  | [] => (st, true)
  | BEdit add :: r => boot_steps var reg (write_obj st o (merge (obj_store st o) add)) id o r   (* in place *)
  | BSet p v :: r =>
    match do_set var reg st id p v false with
    | (st', ROk) => boot_steps var reg st' id o r
    | (st', _) => (st', false)
    end
  end.
(* outcomes after which the loaded configuration stays published: success, the failed second version write,
   and "no changes to commit" (a start-up configuration without any handled path; osvbngd accepts that error) *)
Definition is_boot_ok (r : res) : bool := match r with ROk | RBootVersion | RNoChanges => true | _ => false end.
Definition do_boot (var : variant) (reg : registry) (g : guard) (st0 : state) (cfg : store)
           (steps : list bstep) (emitted : list (path * value)) (f : faults) : state * res * list ev :=
  let o := (next_oid st0 + 1)%N in
  (* LoadStartupConfig: cd.startupConfig = deepCopy(cfg) *)
  let st_l := {| running := running st0; running_oid := running_oid st0; startup := cfg; startup_oid := o;
                 sfile := sfile st0; frr := frr st0; sessions := sessions st0; lock := lock st0;
                 next_id := next_id st0; next_oid := o; vmem := vmem st0; vfiles := vfiles st0 |} in
  if v_boot_atomic var && negb (precommit_ok g cfg) then (st_l, RPrecommit, []) else
  (* ApplyLoadedConfig: cd.runningConfig = that object, before any validator or handler has seen it *)
  let st_a := {| running := cfg; running_oid := o; startup := cfg; startup_oid := o; sfile := sfile st0;
                 frr := frr st0; sessions := sessions st0; lock := lock st0; next_id := next_id st0;
                 next_oid := o; vmem := vmem st0; vfiles := vfiles st0 |} in
  let '(st_z, r, evs) :=
    match do_create st_a with
    | (st_b, RId id) =>
      match load_core reg st_b id cfg o emitted with         (* LoadConfig(sessionID, config): the SAME object *)
      | (st_c, ROk) =>
        match boot_steps var reg st_c id o steps with
        | (st_d, true) =>
          let '(st_e, r, evs) := do_commit var reg g st_d id f in
          (* after a successful commit that recorded a version ApplyLoadedConfig stamps its CommitMsg and writes
             the version file once more itself: that write failing is returned as an error of the start-up *)
          let r' := match r with
                    | ROk => if f_version f && negb (Nat.eqb (length (vmem st_e)) (length (vmem st_d)))
                             then RBootVersion else ROk
                    | _ => r end in
          (fst (do_close st_e id), r', evs)                  (* defer CloseCandidateSession *)
        | (st_d, false) => (fst (do_close st_d id), RBootErr, [])
        end
      | (st_c, r) => (fst (do_close st_c id), r, [])
      end
    | (st_b, r) => (st_b, r, [])
    end in
  if v_boot_atomic var && negb (is_boot_ok r)
  then (* the start-up failed: running is put back *)
    ({| running := running st0; running_oid := running_oid st0; startup := startup st_z; startup_oid := startup_oid st_z;
        sfile := sfile st_z; frr := frr st_z; sessions := sessions st_z; lock := lock st_z; next_id := next_id st_z;
        next_oid := next_oid st_z; vmem := vmem st_z; vfiles := vfiles st_z |}, r, evs)
  else (st_z, r, evs).

(* ---------- SaveStartup, ResetForRecovery, ReloadFRR (conf.go) ---------- *)
Definition do_save_startup (g : guard) (st : state) (fail : bool) : state * res :=
  let o := (next_oid st + 1)%N in
  ({| running := running st; running_oid := running_oid st; startup := running st; startup_oid := o;
      sfile := if fail then sfile st else Some (scrub g (running st)); frr := frr st; sessions := sessions st;
      lock := lock st; next_id := next_id st; next_oid := o; vmem := vmem st; vfiles := vfiles st |},
   if fail then RSaveFail else ROk).
Definition do_reset (st : state) : state :=
  let o := (next_oid st + 1)%N in
  {| running := empty_store; running_oid := o; startup := startup st; startup_oid := startup_oid st;
     sfile := sfile st; frr := frr st; sessions := []; lock := None; next_id := next_id st; next_oid := o;
     vmem := vmem st; vfiles := vfiles st |}.
Definition do_reload_frr (st : state) (k : nat) : state * res * list ev :=
  match k with
  | O => (set_frr st (Some (running st)), ROk, [EFrrReload])
  | 2%nat => (set_frr st (Some (running st)), RFrrReload, [EFrrReload])     (* taken, then reported as failed *)
  | _ => (st, RFrrReload, [EFrrReload])
  end.

Definition step (var : variant) (reg : registry) (g : guard) (st : state) (o : op) : state * res * list ev :=
  match o with
  | OCreate => let '(s, r) := do_create st in (s, r, [])
  | OClose id => let '(s, r) := do_close st id in (s, r, [])
  | ODelete id => let '(s, r) := do_delete st id in (s, r, [])
  | OSet id p v vf => let '(s, r) := do_set var reg st id p v vf in (s, r, [])
  | OTick d => (do_tick st d, ROk, [])
  | ORollback v => let '(s, r) := do_rollback st v in (s, r, [])
  | OCommit id f => do_commit var reg g st id f
  | OLoad id drop add em => let '(s, r) := do_load reg st id drop add em in (s, r, [])
  | OBoot cfg steps em f => do_boot var reg g st cfg steps em f
  | OSaveStartup fl => let '(s, r) := do_save_startup g st fl in (s, r, [])
  | OReset => (do_reset st, ROk, [])
  | OReloadFRR k => do_reload_frr st k
  end.

(* the operations a northbound client performs (no LoadConfig, no start-up).
   NOTE on ORollback: it is plain only because version records never carry a configuration (conf.go:373
   `Config: nil`), so Rollback(toVersion) always ends in "invalid config type".  If versions ever carry
   configurations, Rollback publishes without the lock (createSessionUnlocked ignores lockOwner) and without
   any of the pre-commit validators (conf.go:572), and C13_isolation would no longer hold for it. *)
Definition plain (o : op) : bool :=
  match o with OLoad _ _ _ _ | OBoot _ _ _ _ | OSaveStartup _ | OReset | OReloadFRR _ => false | _ => true end.
(* operations under which the reachable-state invariant is preserved: the northbound ones and the three
   administrative methods *)
Definition inv_ok (o : op) : bool :=
  match o with OLoad _ _ _ _ | OBoot _ _ _ _ => false | _ => true end.

Fixpoint run (var : variant) (reg : registry) (g : guard) (st : state) (ops : list op) : state :=
  match ops with
  | [] => st
  | o :: r => run var reg g (fst (fst (step var reg g st o))) r
  end.
