(* C17/Model.v — executable model of pkg/session/exclusivity.go
     MakeTupleKey, NewRegistry, shardFor, Claim, Release, IsOwner, Lookup
   and of the two callers that act on the displaced owner
     internal/ipoe/session.go   claimTuple / releaseTuple
     internal/pppoe/component.go addToIndexes / removeFromIndexes (exclusivity part), evictPreviousOwner
   Definitions only; proofs are in Proofs.v, the concurrency theorem in Atomic.v / Linearizable.v.

   Go strings (Protocol, SessionID) are byte sequences compared with ==; they are lists of N here.
   A Go map[TupleKey]Owner is an association list without duplicate keys (iteration order is
   never observed by this code).  uint32 arithmetic of shardFor is written with explicit mod 2^32. *)
From OV Require Import Common.Base.

Definition bytes := list N.

Fixpoint bytes_eqb (a b : bytes) : bool :=
  match a, b with
  | [], [] => true
  | x :: a', y :: b' => N.eqb x y && bytes_eqb a' b'
  | _, _ => false
  end.

(* TupleKey{SVLAN uint16; CVLAN uint16; MAC [6]byte} *)
Record key := mkKey { k_svlan : N; k_cvlan : N; k_mac : list N }.
Definition key_eqb (a b : key) : bool :=
  N.eqb (k_svlan a) (k_svlan b) && N.eqb (k_cvlan a) (k_cvlan b) && bytes_eqb (k_mac a) (k_mac b).

(* Owner{Protocol; SessionID; Key} *)
Record owner := mkOwner { o_proto : bytes; o_sid : bytes; o_key : key }.

Definition proto_ipoe : bytes := [105; 112; 111; 101]%N.            (* "ipoe"  *)
Definition proto_pppoe : bytes := [112; 112; 112; 111; 101]%N.      (* "pppoe" *)

(* MakeTupleKey: copy(k.MAC[:], mac) copies min(6, len) bytes, the rest stays zero *)
Definition pad6 (m : list N) : list N := firstn 6 (m ++ repeat 0%N 6).
Definition make_tuple_key (svlan cvlan : N) (mac : list N) : key :=
  mkKey svlan cvlan (pad6 mac).

(* ---- shardFor ---- *)
Definition num_shards : nat := 16.
Definition two32 : N := 4294967296.
Definition shl32 (x : N) (n : N) : N := (N.shiftl x n mod two32)%N.
Definition mb (k : key) (i : nat) : N := nth i (k_mac k) 0%N.
Definition shard_hash (k : key) : N :=
  let h := N.lor (shl32 (k_svlan k) 16) (k_cvlan k) in
  let h := N.lxor h (N.lor (N.lor (N.lor (shl32 (mb k 0) 24) (shl32 (mb k 1) 16)) (shl32 (mb k 2) 8)) (mb k 3)) in
  let h := N.lxor h (N.lor (shl32 (mb k 4) 8) (mb k 5)) in
  h.
Definition shard_for (k : key) : N := N.land (shard_hash k) 15.
Definition shard_idx (k : key) : nat := N.to_nat (shard_for k).

(* ---- one shard: map[TupleKey]Owner ---- *)
Definition shard := list (key * owner).
Fixpoint m_get (k : key) (m : shard) : option owner :=
  match m with
  | [] => None
  | (k', v) :: r => if key_eqb k k' then Some v else m_get k r
  end.
Fixpoint m_del (k : key) (m : shard) : shard :=
  match m with
  | [] => []
  | (k', v) :: r => if key_eqb k k' then m_del k r else (k', v) :: m_del k r
  end.
Definition m_set (k : key) (v : owner) (m : shard) : shard := (k, v) :: m_del k m.

Inductive op :=
| OClaim (k : key) (o : owner)
| ORelease (k : key) (o : owner)
| OIsOwner (k : key) (o : owner)
| OLookup (k : key).
Inductive ret :=
| RNil                     (* nil *Owner *)
| ROwner (o : owner)       (* pointer to a copy of an Owner *)
| RUnit
| RBool (b : bool).

Definition op_key (o : op) : key :=
  match o with OClaim k _ | ORelease k _ | OIsOwner k _ | OLookup k => k end.
(* IsOwner and Lookup take the shard's RWMutex with RLock *)
Definition op_is_read (o : op) : bool :=
  match o with OIsOwner _ _ | OLookup _ => true | _ => false end.

(* the body of each method, between Lock and Unlock, on the shard's map *)
Definition shard_step (s : shard) (o : op) : shard * ret :=
  match o with
  | OClaim k ow =>
      let prev := m_get k s in
      let s' := m_set k ow s in
      match prev with
      | None => (s', RNil)
      | Some p =>
          if bytes_eqb (o_proto p) (o_proto ow) && bytes_eqb (o_sid p) (o_sid ow)
          then (s', RNil) else (s', ROwner p)
      end
  | ORelease k ow =>
      match m_get k s with
      | None => (s, RUnit)
      | Some cur =>
          if negb (bytes_eqb (o_proto cur) (o_proto ow)) || negb (bytes_eqb (o_sid cur) (o_sid ow))
          then (s, RUnit) else (m_del k s, RUnit)
      end
  | OIsOwner k ow =>
      match m_get k s with
      | None => (s, RBool false)
      | Some cur => (s, RBool (bytes_eqb (o_proto cur) (o_proto ow) && bytes_eqb (o_sid cur) (o_sid ow)))
      end
  | OLookup k =>
      match m_get k s with
      | None => (s, RNil)
      | Some cur => (s, ROwner cur)
      end
  end.

(* ---- the registry: [numShards]*shard ---- *)
Definition registry := list shard.
Definition new_registry : registry := repeat [] num_shards.

Fixpoint set_nth {A} (i : nat) (x : A) (l : list A) : list A :=
  match l, i with
  | [], _ => []
  | _ :: t, O => x :: t
  | h :: t, S j => h :: set_nth j x t
  end.

Definition reg_step (r : registry) (o : op) : registry * ret :=
  let i := shard_idx (op_key o) in
  let sr := shard_step (nth i r []) o in
  (set_nth i (fst sr) r, snd sr).

Fixpoint reg_run (r : registry) (ops : list op) : registry * list ret :=
  match ops with
  | [] => (r, [])
  | o :: rest =>
      let (r1, x) := reg_step r o in
      let (r2, xs) := reg_run r1 rest in (r2, x :: xs)
  end.

(* ---- the flat sequential specification: one partial map from tuples to owners ---- *)
Definition same_id (a b : owner) : bool :=
  bytes_eqb (o_proto a) (o_proto b) && bytes_eqb (o_sid a) (o_sid b).
Definition spec := key -> option owner.
Definition spec_empty : spec := fun _ => None.
Definition spec_set (s : spec) (k : key) (v : option owner) : spec :=
  fun k' => if key_eqb k' k then v else s k'.
Definition spec_step (s : spec) (o : op) : spec * ret :=
  match o with
  | OClaim k ow =>
      (spec_set s k (Some ow),
       match s k with
       | Some p => if same_id p ow then RNil else ROwner p
       | None => RNil
       end)
  | ORelease k ow =>
      (match s k with
       | Some cur => if same_id cur ow then spec_set s k None else s
       | None => s
       end, RUnit)
  | OIsOwner k ow => (s, RBool (match s k with Some cur => same_id cur ow | None => false end))
  | OLookup k => (s, match s k with Some cur => ROwner cur | None => RNil end)
  end.
Fixpoint spec_run (s : spec) (ops : list op) : spec * list ret :=
  match ops with
  | [] => (s, [])
  | o :: rest =>
      let (s1, x) := spec_step s o in
      let (s2, xs) := spec_run s1 rest in (s2, x :: xs)
  end.

(* what a registry stores for a tuple (the abstraction function) *)
Definition reg_get (r : registry) (k : key) : option owner := m_get k (nth (shard_idx k) r []).

(* ---- callers: what the protocol components do with the displaced owner ----
   ipoe claimTuple / pppoe addToIndexes: Claim, then publish one SubscriberTerminate event
   naming the displaced session iff it belongs to the other protocol. *)
Definition component_claim (self_proto : bytes) (r : registry) (k : key) (sid : bytes)
  : registry * list bytes :=
  let ow := mkOwner self_proto sid k in
  let (r', res) := reg_step r (OClaim k ow) in
  (r', match res with
       | ROwner prev => if negb (bytes_eqb (o_proto prev) self_proto) then [o_sid prev] else []
       | _ => []
       end).
Definition component_release (self_proto : bytes) (r : registry) (k : key) (sid : bytes) : registry :=
  fst (reg_step r (ORelease k (mkOwner self_proto sid k))).

(* the repaired pppoe call site (fixes/C17_pppoe_superseded_session_survives.patch): every session
   Claim reports is evicted, also an older PPPoE session of the tuple *)
Definition component_claim_any (self_proto : bytes) (r : registry) (k : key) (sid : bytes)
  : registry * list bytes :=
  let ow := mkOwner self_proto sid k in
  let (r', res) := reg_step r (OClaim k ow) in
  (r', match res with ROwner prev => [o_sid prev] | _ => [] end).
Definition site_claim (any : bool) := if any then component_claim_any else component_claim.

(* the call sites: `if c.exclusivity == nil || !sess.MixedAccess { return }`, then
   MakeTupleKey(sess.OuterVLAN, sess.InnerVLAN, sess.MAC) and the claim / release above.
   Events are (evicted session id, tuple named in the event). *)
Definition caller_claim_v (any : bool) (self_proto : bytes) (mixed : bool) (r : registry) (svlan cvlan : N) (mac sid : bytes)
  : registry * list (bytes * key) :=
  if mixed then
    let k := make_tuple_key svlan cvlan mac in
    let (r', ev) := site_claim any self_proto r k sid in
    (r', map (fun s => (s, k)) ev)
  else (r, []).
Definition caller_claim := caller_claim_v false.
Definition caller_release (self_proto : bytes) (mixed : bool) (r : registry) (svlan cvlan : N) (mac sid : bytes)
  : registry :=
  if mixed then component_release self_proto r (make_tuple_key svlan cvlan mac) sid else r.

(* ---- the two components around one registry and one event bus (end to end) ----
   ipoe: handleDiscover (dhcpv4.go: LoadOrStore of the tuple's session, claimTuple only for a new
   session) and handleSubscriberTerminate/resolveTerminateTarget (mutation.go, resolve.go);
   pppoe: handlePADR (always a new session, addToIndexes overwrites c.sessions[tuple]) and
   handleSubscriberTerminate/resolveTerminateTargetLocked/removeFromIndexes (component.go).
   The bus delivers every terminate event to BOTH components (events/local/bus.go), including the
   one that published it.  Sessions are Owner records (protocol, session id, tuple). *)
(* which of the recorded defects of the eviction protocol are repaired *)
Record variant := mkV {
  v_keyhit : bool;      (* 94649ad: a terminate event hits the session on the tuple only if it names it *)
  v_claim_all : bool;   (* every ipoe creation path sets MixedAccess (DISCOVER always did; REQUEST, SOLICIT) *)
  v_evict_pp : bool     (* pppoe evicts the PPPoE session its own newer session displaced *)
}.
Definition Repaired : variant := mkV true true true.
Definition Defective : variant := mkV false false false.   (* the code before 94649ad, historical *)

Record world := mkW {
  w_reg : registry;
  w_ipoe : shard;                  (* ipoe c.sessions / sessionIndex: tuple -> its session *)
  w_pp_key : shard;                (* pppoe c.sessions: tuple -> latest session *)
  w_pp_all : list (key * bytes);   (* pppoe sessionIDIndex / sidIndex: every live session *)
  w_next : N                       (* source of fresh session ids (uuid in the code) *)
}.
Definition world0 : world := mkW new_registry [] [] [] 0.

Definition ipoe_sid (n : N) : bytes := [105; n]%N.
Definition pppoe_sid (n : N) : bytes := [112; n]%N.

Fixpoint find_sid (sid : bytes) (m : shard) : option owner :=
  match m with
  | [] => None
  | (_, s) :: r => if bytes_eqb (o_sid s) sid then Some s else find_sid sid r
  end.
Fixpoint find_pp (sid : bytes) (l : list (key * bytes)) : option (key * bytes) :=
  match l with
  | [] => None
  | (k, s) :: r => if bytes_eqb s sid then Some (k, s) else find_pp sid r
  end.
Fixpoint remove_pp (k : key) (sid : bytes) (l : list (key * bytes)) : list (key * bytes) :=
  match l with
  | [] => []
  | (k', s) :: r => if key_eqb k' k && bytes_eqb s sid then remove_pp k sid r else (k', s) :: remove_pp k sid r
  end.

(* resolveTerminateTarget: by ev.Key first, then by ev.SessionID.  v_keyhit = true (/repo since
   94649ad): the session on the tuple only if it is the one the event names; false: whatever session
   sits on the tuple (historical, only for the _refuted witness). *)
Definition key_hit (v : variant) (sid : bytes) (found : option owner) : option owner :=
  match found with
  | Some s => match v with
              | mkV false _ _ => Some s
              | mkV true _ _ => if bytes_eqb (o_sid s) sid then Some s else None
              end
  | None => None
  end.

Definition ipoe_terminate (v : variant) (w : world) (ev : bytes * key) : world :=
  let (sid, k) := ev in
  let target := match key_hit v sid (m_get k (w_ipoe w)) with
                | Some s => Some s
                | None => find_sid sid (w_ipoe w)
                end in
  match target with
  | None => w
  | Some s =>
      mkW (component_release proto_ipoe (w_reg w) (o_key s) (o_sid s))
          (m_del (o_key s) (w_ipoe w)) (w_pp_key w) (w_pp_all w) (w_next w)
  end.

Definition pppoe_terminate (v : variant) (w : world) (ev : bytes * key) : world :=
  let (sid, k) := ev in
  let target := match key_hit v sid (m_get k (w_pp_key w)) with
                | Some s => Some (o_key s, o_sid s)
                | None => find_pp sid (w_pp_all w)
                end in
  match target with
  | None => w
  | Some (k', sid') =>
      (* removeFromIndexes: delete(c.sessions, key) only if it points to this session (9893c59),
         drop the session from the id indexes, Release *)
      mkW (component_release proto_pppoe (w_reg w) k' sid')
          (w_ipoe w)
          (match m_get k' (w_pp_key w) with
           | Some cur => if bytes_eqb (o_sid cur) sid' then m_del k' (w_pp_key w) else w_pp_key w
           | None => w_pp_key w
           end)
          (remove_pp k' sid' (w_pp_all w)) (w_next w)
  end.

Definition deliver (v : variant) (w : world) (evs : list bytes) (k : key) : world :=
  fold_left (fun w sid => pppoe_terminate v (ipoe_terminate v w (sid, k)) (sid, k)) evs w.

Inductive e2e_op :=
| EDiscover (k : key)     (* handleDiscover, dhcpv4.go *)
| ERequest (k : key)      (* handleRequest without a session: dhcpv4.go *)
| ESolicit (k : key)      (* handleDHCPv6Solicit: dhcpv6.go (unified session mode: same table key) *)
| EPadr (k : key).

(* an ipoe creation path: LoadOrStore; a NEW session claims iff its MixedAccess flag was set *)
Definition ipoe_create (v : variant) (claims : bool) (w : world) (k : key) : world :=
  match m_get k (w_ipoe w) with
  | Some _ => w                                   (* existing session: no claim *)
  | None =>
      let sid := ipoe_sid (w_next w) in
      let w1 := mkW (w_reg w) (m_set k (mkOwner proto_ipoe sid k) (w_ipoe w)) (w_pp_key w) (w_pp_all w)
                    (N.succ (w_next w)) in
      if claims then
        let (r', evs) := component_claim proto_ipoe (w_reg w) k sid in
        deliver v (mkW r' (w_ipoe w1) (w_pp_key w1) (w_pp_all w1) (w_next w1)) evs k
      else w1
  end.

Definition e2e_step (v : variant) (w : world) (o : e2e_op) : world :=
  match o with
  | EDiscover k => ipoe_create v true w k
  | ERequest k | ESolicit k => ipoe_create v (v_claim_all v) w k
  | EPadr k =>
      let sid := pppoe_sid (w_next w) in
      let (r', evs) := site_claim (v_evict_pp v) proto_pppoe (w_reg w) k sid in
      deliver v (mkW r' (w_ipoe w) (m_set k (mkOwner proto_pppoe sid k) (w_pp_key w))
                     ((k, sid) :: w_pp_all w) (N.succ (w_next w))) evs k
  end.
Definition e2e_run (v : variant) (w : world) (ops : list e2e_op) : world := fold_left (e2e_step v) ops w.

(* observation per tuple: live ipoe sessions, live pppoe sessions, protocol of the registry owner *)
Definition count_pp (k : key) (l : list (key * bytes)) : nat :=
  length (filter (fun e => key_eqb (fst e) k) l).
Definition e2e_snapshot (w : world) (k : key) : nat * nat * option bytes :=
  (match m_get k (w_ipoe w) with Some _ => 1 | None => 0 end,
   count_pp k (w_pp_all w),
   match reg_get (w_reg w) k with Some o => Some (o_proto o) | None => None end).

(* ---- restart: everything in memory is gone except what the components restore from their
   checkpoints; the registry starts empty and every restored live session claims its tuple again
   (ipoe: restoreSessions -> installInMemoryState -> claimTuple (d2827a3); pppoe: restoreSessions ->
   installInMemoryState -> addToIndexes) ---- *)
Definition reclaim_ipoe (r : registry) (e : key * owner) : registry :=
  fst (component_claim proto_ipoe r (fst e) (o_sid (snd e))).
Definition reclaim_pppoe (r : registry) (e : key * bytes) : registry :=
  fst (component_claim_any proto_pppoe r (fst e) (snd e)).
Definition e2e_restart (w : world) : world :=
  mkW (fold_left reclaim_pppoe (w_pp_all w) (fold_left reclaim_ipoe (w_ipoe w) new_registry))
      (w_ipoe w) (w_pp_key w) (w_pp_all w) (w_next w).
(* the ipoe restore path before /repo d2827a3 (historical witness only): sessions of the tuples in [skip] (half-established when
   checkpointed, or whose dataplane restore failed) are put back into the session tables without a claim.
   Such a world can hold two sessions on one tuple, so the re-claims of a LATER restart do displace and
   evict: here all re-claims happen first (ipoe, then pppoe), then the published events are delivered. *)
Definition reclaim_ipoe_ev (acc : registry * list (bytes * key)) (e : key * owner) : registry * list (bytes * key) :=
  let (r', evs) := component_claim proto_ipoe (fst acc) (fst e) (o_sid (snd e)) in
  (r', snd acc ++ map (fun s => (s, fst e)) evs).
Definition reclaim_pppoe_ev (acc : registry * list (bytes * key)) (e : key * bytes) : registry * list (bytes * key) :=
  let (r', evs) := component_claim_any proto_pppoe (fst acc) (fst e) (snd e) in
  (r', snd acc ++ map (fun s => (s, fst e)) evs).
Definition e2e_restart_skipping (v : variant) (skip : list key) (w : world) : world :=
  let acc := fold_left reclaim_pppoe_ev (w_pp_all w)
               (fold_left reclaim_ipoe_ev (filter (fun e => negb (existsb (key_eqb (fst e)) skip)) (w_ipoe w))
                          (new_registry, [])) in
  fold_left (fun w ev => pppoe_terminate v (ipoe_terminate v w ev) ev) (snd acc)
            (mkW (fst acc) (w_ipoe w) (w_pp_key w) (w_pp_all w) (w_next w)).

(* ---- the same system with an ASYNCHRONOUS bus and session teardown ----
   Terminate events are queued when they are published and delivered later (events/local: a channel
   and a dispatcher goroutine), so creations, teardowns and deliveries interleave freely.
     ACreateI k : handleDiscover / handleRequest / handleDHCPv6Solicit on tuple k (claimTuple; event queued)
     APadr k    : handlePADR (addToIndexes; every displaced session's eviction queued)
     ADeliver   : the bus hands the oldest queued event to both components' handleSubscriberTerminate
     APadt k    : PADT for the tuple's current PPPoE session (handlePADT -> removeFromIndexes -> Release)
     AOperI k   : a terminate request (operator, lease expiry, ...) naming the tuple's IPoE session is published *)
Record aworld := mkA { a_w : world; a_q : list (bytes * key) }.
Definition aworld0 : aworld := mkA world0 [].

(* the dispatcher starts both components' handlers for one event concurrently; they share only the registry, on which
   each performs one atomic Release, so an overlap equals one of the two orders: ADeliver (ipoe handler first) and
   ADeliverPI (pppoe handler first) *)
Inductive a_op := ACreateI (k : key) | APadr (k : key) | ADeliver | APadt (k : key) | AOperI (k : key) | ADeliverPI.

Definition a_step (v : variant) (aw : aworld) (o : a_op) : aworld :=
  let w := a_w aw in
  match o with
  | ACreateI k =>
      match m_get k (w_ipoe w) with
      | Some _ => aw
      | None =>
          let sid := ipoe_sid (w_next w) in
          let (r', evs) := component_claim proto_ipoe (w_reg w) k sid in
          mkA (mkW r' (m_set k (mkOwner proto_ipoe sid k) (w_ipoe w)) (w_pp_key w) (w_pp_all w) (N.succ (w_next w)))
              (a_q aw ++ map (fun s => (s, k)) evs)
      end
  | APadr k =>
      let sid := pppoe_sid (w_next w) in
      let (r', evs) := site_claim (v_evict_pp v) proto_pppoe (w_reg w) k sid in
      mkA (mkW r' (w_ipoe w) (m_set k (mkOwner proto_pppoe sid k) (w_pp_key w)) ((k, sid) :: w_pp_all w)
               (N.succ (w_next w)))
          (a_q aw ++ map (fun s => (s, k)) evs)
  | ADeliver =>
      match a_q aw with
      | [] => aw
      | ev :: q => mkA (pppoe_terminate v (ipoe_terminate v w ev) ev) q
      end
  | ADeliverPI =>
      match a_q aw with
      | [] => aw
      | ev :: q => mkA (ipoe_terminate v (pppoe_terminate v w ev) ev) q
      end
  | APadt k =>
      match m_get k (w_pp_key w) with
      | None => aw
      | Some s => mkA (pppoe_terminate v w (o_sid s, k)) (a_q aw)
      end
  | AOperI k =>
      match m_get k (w_ipoe w) with
      | None => aw
      | Some s => mkA w (a_q aw ++ [(o_sid s, k)])
      end
  end.
Definition a_run (v : variant) (aw : aworld) (ops : list a_op) : aworld := fold_left (a_step v) ops aw.
