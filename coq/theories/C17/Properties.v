From OV Require Import Common.Base C17.Model C17.Proofs.
Theorem C17_shard_in_range : forall k, (shard_for k < 16)%N.
Proof. exact shard_for_lt. Qed.
Print Assumptions C17_shard_in_range.
