(* C17/Properties.v — the property theorems only.  Each is closed by [exact] of a lemma from
   Proofs.v / Atomic.v / Linearizable.v and followed by Print Assumptions. *)
From OV Require Import Common.Base C17.Model C17.Proofs C17.Atomic C17.Linearizable C17.E2E C17.Sharding C17.Async.

(* The sharded table (16 association lists selected by shardFor) answers every sequential history
   of Claim/Release/IsOwner/Lookup exactly as ONE flat partial map from tuples to owners does:
   sharding is unobservable, colliding and non-colliding tuples never interfere. *)
Theorem C17_refines_flat_spec :
  forall ops,
    snd (reg_run new_registry ops) = snd (spec_run spec_empty ops) /\
    forall k, reg_get (fst (reg_run new_registry ops)) k = fst (spec_run spec_empty ops) k.
Proof. exact refines_spec. Qed.
Print Assumptions C17_refines_flat_spec.

(* After any history: a tuple is stored at most once in the whole table (and Lookup returns that
   entry); two sessions that both pass IsOwner for a tuple are the same session; IsOwner agrees
   with Lookup. *)
Theorem C17_single_owner :
  forall ops,
    let r := fst (reg_run new_registry ops) in
    (forall k i j v w, In (k, v) (nth i r []) -> In (k, w) (nth j r []) -> i = j /\ v = w /\ lookup r k = Some v) /\
    (forall k o1 o2, is_owner r k o1 = true -> is_owner r k o2 = true -> same_id o1 o2 = true) /\
    (forall k o, is_owner r k o = true <-> exists cur, lookup r k = Some cur /\ same_id cur o = true).
Proof. exact single_owner. Qed.
Print Assumptions C17_single_owner.

(* A claim returns an owner exactly when the tuple was owned by a different session, and it
   returns that session. *)
Theorem C17_claim_reports_iff :
  forall r k o p,
    snd (reg_step r (OClaim k o)) = ROwner p <-> (lookup r k = Some p /\ same_id p o = false).
Proof. exact claim_reports_iff. Qed.
Print Assumptions C17_claim_reports_iff.

(* Displacement: when, after any history, Claim(k, o) reports p, then p was the stored owner, o is
   the owner afterwards, p no longer is, and in every continuation in which p's session does not
   claim k again no claim on k ever reports p's session again (reported once, not twice). *)
Theorem C17_displaced_reported_once :
  forall pre k o p post,
    let r1 := fst (reg_run new_registry pre) in
    let r2 := fst (reg_step r1 (OClaim k o)) in
    snd (reg_step r1 (OClaim k o)) = ROwner p ->
    lookup r1 k = Some p /\ same_id p o = false /\
    lookup r2 k = Some o /\ is_owner r2 k p = false /\
    (forallb (fun x => negb (claim_by k p x)) post = true ->
     forallb (fun ox => negb (reports k p (fst ox) (snd ox))) (combine post (snd (reg_run r2 post))) = true).
Proof. exact displaced_reported_once. Qed.
Print Assumptions C17_displaced_reported_once.

(* Accounting over a whole history, per tuple: every tenure (a claim that installs a session that
   was not the owner) is ended by exactly one displacement report or exactly one effective
   release, or is the current one:  started = reported + released + (owned now). *)
Theorem C17_tenure_conservation :
  forall ops k,
    let '((s, p, d), r') := tenure_counts new_registry k ops in
    r' = fst (reg_run new_registry ops) /\ (s = p + d + owned_now r' k)%nat.
Proof. exact tenure_conservation_new. Qed.
Print Assumptions C17_tenure_conservation.

(* A release by a session that is not the current owner changes nothing, for any tuple. *)
Theorem C17_stale_release_harmless :
  forall ops k o,
    let r := fst (reg_run new_registry ops) in
    is_owner r k o = false -> forall k', lookup (release r k o) k' = lookup r k'.
Proof. exact stale_release_harmless. Qed.
Print Assumptions C17_stale_release_harmless.

(* ... in particular the late release of a displaced session leaves the displacing one in place. *)
Theorem C17_displaced_release_keeps_new_owner :
  forall pre k o p,
    let r1 := fst (reg_run new_registry pre) in
    let r2 := fst (reg_step r1 (OClaim k o)) in
    snd (reg_step r1 (OClaim k o)) = ROwner p ->
    forall p', same_id p' p = true -> lookup (release r2 k p') k = Some o.
Proof. exact displaced_release_keeps_new_owner. Qed.
Print Assumptions C17_displaced_release_keeps_new_owner.

(* A release by the owner frees the tuple and only that tuple. *)
Theorem C17_release_by_owner :
  forall ops k o,
    let r := fst (reg_run new_registry ops) in
    is_owner r k o = true ->
    lookup (release r k o) k = None /\ forall k', k' <> k -> lookup (release r k o) k' = lookup r k'.
Proof. exact release_by_owner. Qed.
Print Assumptions C17_release_by_owner.

(* /repo's present shardFor, as transcribed in the model (not a contract, see the C17_any_sharding theorems): always
   inside the array, and depends only on the low nibbles of the C-VLAN, MAC[3] and MAC[5]. *)
Theorem C17_shard_deterministic :
  forall k, (shard_for k < 16)%N /\
            shard_for k = N.land (N.lxor (N.lxor (k_cvlan k) (mb k 3)) (mb k 5)) 15.
Proof. intros k. split; [apply shard_for_lt | apply shard_for_low_bits]. Qed.
Print Assumptions C17_shard_deterministic.

(* The shard function is a FREE choice (which hash, how many shards): for EVERY sf : tuple -> lock id the
   table run with each method body under lock sf(tuple) returns, for every sequential history, what the
   flat specification returns ... *)
Theorem C17_any_sharding_refines_flat_spec :
  forall (sf : key -> nat) ops, g_run sf (g_empty) ops = snd (spec_run spec_empty ops).
Proof. intros sf ops. apply g_run_spec. apply agrees_empty. Qed.
Print Assumptions C17_any_sharding_refines_flat_spec.

(* ... and every complete concurrent history is linearizable w.r.t. the flat specification. *)
Theorem C17_any_sharding_linearizable :
  forall (sf : key -> nat) progs c,
    reach Nat.eq_dec (g_lock sf) op_is_read shard_step g_empty progs c -> quiescent c ->
    exists lin : list (entry op ret),
      (forall t, proj t (c_hist c) = proj t (expand lin)) /\
      flat_legal spec_empty lin /\ NoDup (ids lin) /\
      (forall a r b o, before (ERes a r) (EInv b o) (c_hist c) -> before a b (ids lin)).
Proof. exact any_sharding_linearizable. Qed.
Print Assumptions C17_any_sharding_linearizable.

(* /repo's shardFor (Model.shard_idx, 16 shards) is one admissible choice *)
Example C17_head_sharding_is_an_instance :
  forall r o, reg_ok r -> snd (reg_step r o) = snd (g_step shard_idx (fun i => nth i r []) o).
Proof. exact head_policy_is_an_instance. Qed.
Print Assumptions C17_head_sharding_is_an_instance.

(* MakeTupleKey always yields a 6-byte MAC and keeps a 6-byte MAC unchanged. *)
Theorem C17_make_tuple_key :
  forall s c m, length (k_mac (make_tuple_key s c m)) = 6%nat /\
                (length m = 6%nat -> make_tuple_key s c m = mkKey s c m).
Proof.
  intros s c m. split; [apply pad6_length | intros H; unfold make_tuple_key; rewrite pad6_exact; auto].
Qed.
Print Assumptions C17_make_tuple_key.

(* Callers (ipoe claimTuple, pppoe addToIndexes): a claim publishes a terminate event for the
   previous owner exactly when that owner belongs to another protocol, and then exactly one. *)
Theorem C17_cross_protocol_eviction :
  forall self r k sid,
    snd (component_claim self r k sid) =
    match lookup r k with
    | Some prev => if bytes_eqb (o_proto prev) self then [] else [o_sid prev]
    | None => []
    end.
Proof. exact component_claim_events. Qed.
Print Assumptions C17_cross_protocol_eviction.

(* The call sites as written (MixedAccess guard, MakeTupleKey of the session's VLANs and MAC): no
   effect at all on a non-mixed S-VLAN; otherwise one Claim for the session's tuple and at most one
   terminate event, naming the previous owner and the tuple, iff it was of another protocol. *)
Theorem C17_caller_claim_events :
  forall self mixed r s c m sid,
    let k := make_tuple_key s c m in
    snd (caller_claim self mixed r s c m sid) =
      (if mixed then
         match lookup r k with
         | Some prev => if bytes_eqb (o_proto prev) self then [] else [(o_sid prev, k)]
         | None => []
         end
       else []) /\
    fst (caller_claim self mixed r s c m sid) =
      (if mixed then fst (reg_step r (OClaim k (mkOwner self sid k))) else r).
Proof. exact caller_claim_events. Qed.
Print Assumptions C17_caller_claim_events.

(* Contract of the call sites under concurrency: a component's claim is ONE registry operation and the
   published events are a function of THAT operation's own return value.  (Hence, by
   C17_concurrent_reported_once, across both components every cross-protocol displacement publishes
   exactly one event and every event names the session that very claim displaced.) *)
Theorem C17_call_site_one_step :
  forall self r k sid,
    component_claim self r k sid =
    (fst (reg_step r (OClaim k (mkOwner self sid k))),
     site_events self (snd (reg_step r (OClaim k (mkOwner self sid k))))).
Proof. exact component_claim_one_step. Qed.
Print Assumptions C17_call_site_one_step.

(* A call site that decides from a Lookup issued before its Claim is indistinguishable sequentially ... *)
Theorem C17_lookup_then_claim_sequentially_same :
  forall self r k sid, lookup_then_claim self (fun x => x) r k sid = component_claim self r k sid.
Proof. exact lookup_then_claim_sequentially_same. Qed.
Print Assumptions C17_lookup_then_claim_sequentially_same.

(* ... but is not atomic: with another party's claim between the two calls a session is displaced
   without any event, an outcome no order of the two operations produces.  This is what the gated
   call-site cases (G op) of the correspondence check look for. *)
Theorem C17_lookup_then_claim_refuted :
  let interloper := fun r => fst (reg_step r (OClaim wk wpp)) in
  let split := lookup_then_claim proto_ipoe interloper new_registry wk [115; 49]%N in
  let site_first := component_claim proto_ipoe new_registry wk [115; 49]%N in
  let site_last := component_claim proto_ipoe (interloper new_registry) wk [115; 49]%N in
  snd split = [] /\ reg_get (fst split) wk = Some (mkOwner proto_ipoe [115; 49]%N wk) /\
  snd site_last = [[112; 57]%N] /\
  reg_get (interloper (fst site_first)) wk = Some wpp.
Proof. exact lookup_then_claim_not_atomic. Qed.
Print Assumptions C17_lookup_then_claim_refuted.

(* Generic: N threads running arbitrary programs of operations, each operation executed as
   invoke; acquire the (reader/writer) lock of its cell; read the cell; compute and write back;
   unlock; respond — with arbitrary interleaving of these small steps.  Every history of a
   quiescent configuration is linearizable w.r.t. the sequential specification [gstep]. *)
Theorem C17_atomic_ops_linearizable :
  forall (L Cell Op Ret : Type) (L_eq_dec : forall a b : L, {a = b} + {a <> b})
         (lock_of : Op -> L) (is_read : Op -> bool) (cell_step : Cell -> Op -> Cell * Ret),
    (forall c op, is_read op = true -> fst (cell_step c op) = c) ->
    forall s0 progs c,
      reach L_eq_dec lock_of is_read cell_step s0 progs c -> quiescent c ->
      linearizable L_eq_dec lock_of cell_step s0 (c_hist c).
Proof. exact atomic_ops_linearizable. Qed.
Print Assumptions C17_atomic_ops_linearizable.

(* The exclusivity table: every complete concurrent history of Claim/Release/IsOwner/Lookup, each
   running its Go method body under the RWMutex of shardFor(tuple), is linearizable with respect to
   the sequential model [reg_step] (the function the correspondence check extracts and runs). *)
Theorem C17_linearizable :
  forall progs c, t_reach progs c -> quiescent c ->
    exists lin : list t_entry,
      (forall t, proj t (c_hist c) = proj t (expand lin)) /\
      reg_legal new_registry lin /\
      NoDup (ids lin) /\
      (forall a r b o, before (ERes a r) (EInv b o) (c_hist c) -> before a b (ids lin)).
Proof. exact table_ops_linearizable. Qed.
Print Assumptions C17_linearizable.

(* ---- corollaries over CONCURRENT executions (linearizability + the sequential theorems) ---- *)

(* At every reachable configuration of the concurrent system — any number of operations in flight,
   threads anywhere inside their critical sections — the shared memory is the table produced by
   some legal sequential history, hence well-formed. *)
Theorem C17_concurrent_state :
  forall progs c, t_reach progs c ->
    exists lin : list t_entry,
      reg_legal new_registry lin /\
      let r := fst (reg_run new_registry (map (@e_op op ret) lin)) in
      reg_wf r /\ forall i, (i < num_shards)%nat -> c_sh c i = nth i r [].
Proof. exact concurrent_state. Qed.
Print Assumptions C17_concurrent_state.

(* Single owner at EVERY moment of every concurrent execution: in the shared memory of any reachable
   configuration a tuple is stored at most once over all shards, in the shard shardFor names, and two
   sessions that would both pass IsOwner on that memory are the same session. *)
Theorem C17_concurrent_single_owner :
  forall progs c, t_reach progs c ->
    (forall k i j v w, (i < num_shards)%nat -> (j < num_shards)%nat ->
       In (k, v) (c_sh c i) -> In (k, w) (c_sh c j) ->
       i = j /\ v = w /\ i = shard_idx k /\ m_get k (c_sh c (shard_idx k)) = Some v) /\
    (forall k o1 o2 cur1 cur2,
       m_get k (c_sh c (shard_idx k)) = Some cur1 -> same_id cur1 o1 = true ->
       m_get k (c_sh c (shard_idx k)) = Some cur2 -> same_id cur2 o2 = true -> same_id o1 o2 = true).
Proof. exact concurrent_single_owner. Qed.
Print Assumptions C17_concurrent_single_owner.

(* Every complete concurrent history has a linearization [lin] (Herlihy-Wing conditions) whose
   entries are exactly the responses observed in the history by all threads, and in which
   - a claim returns p exactly when p was the owner at that point and is another session
     (every displacement is reported, and only real ones),
   - a session is reported as displaced from a tuple twice only if it claimed the tuple again in
     between (each displacement is reported ONCE, whichever threads made the claims),
   - after every prefix the table stores each tuple at most once. *)
Theorem C17_concurrent_reported_once :
  forall progs c, t_reach progs c -> quiescent c ->
    exists lin : list t_entry,
      (forall t, proj t (c_hist c) = proj t (expand lin)) /\
      reg_legal new_registry lin /\ NoDup (ids lin) /\
      (forall a r b o, before (ERes a r) (EInv b o) (c_hist c) -> before a b (ids lin)) /\
      (forall id r, In (ERes id r) (c_hist c) <-> exists o, In ((id, o, r) : t_entry) lin) /\
      (forall pre e post k o, lin = pre ++ e :: post -> e_op e = OClaim k o ->
         e_ret e = match lookup (state_after new_registry (pairs pre)) k with
                   | Some p => if same_id p o then RNil else ROwner p
                   | None => RNil end) /\
      (forall pre e1 mid e2 post k o1 p1 o2 p2,
         lin = pre ++ e1 :: mid ++ e2 :: post ->
         e_op e1 = OClaim k o1 -> e_ret e1 = ROwner p1 ->
         e_op e2 = OClaim k o2 -> e_ret e2 = ROwner p2 -> same_id p2 p1 = true ->
         exists e, In e mid /\ claim_by k p1 (e_op e) = true) /\
      (forall pre post, lin = pre ++ post -> reg_wf (state_after new_registry (pairs pre))).
Proof. exact concurrent_reported_once. Qed.
Print Assumptions C17_concurrent_reported_once.

(* the sequential core of the previous theorem, over observable (operation, result) pairs only *)
Theorem C17_legal_reported_once :
  forall pre k o1 p1 mid o2 p2 post,
    legal_from new_registry (pre ++ (OClaim k o1, ROwner p1) :: mid ++ (OClaim k o2, ROwner p2) :: post) ->
    same_id p2 p1 = true ->
    exists ox, In ox mid /\ claim_by k p1 (fst ox) = true.
Proof. exact legal_reported_once. Qed.
Print Assumptions C17_legal_reported_once.

(* Event level, concurrent: a call-site invocation of either component = the registry method under the
   shard lock TOGETHER WITH the events computed from that method's own return value.  Every complete
   concurrent history of such invocations (results = registry result and published session ids) is
   linearizable w.r.t. the sequential call-site specification. *)
Theorem C17_call_sites_linearizable :
  forall progs c, s_reach progs c -> quiescent c ->
    exists lin : list (entry site_op site_ret),
      (forall t, proj t (c_hist c) = proj t (expand lin)) /\
      site_legal new_registry lin /\ NoDup (ids lin) /\
      (forall a r b o, before (ERes a r) (EInv b o) (c_hist c) -> before a b (ids lin)).
Proof. exact call_sites_linearizable. Qed.
Print Assumptions C17_call_sites_linearizable.

(* ... and in such a linearization the registry part is a legal registry history (so
   C17_legal_reported_once applies to it) and the events of every entry are exactly those its own
   registry result determines: an event is published for a displacement iff that very claim reported it. *)
Theorem C17_site_events_follow_reports :
  forall lin r, site_legal r lin ->
    legal_from r (map (fun e => (snd (e_op e), fst (e_ret e))) lin) /\
    forall e, In e lin ->
      snd (e_ret e) = site_events_v (snd (fst (e_op e))) (fst (fst (e_op e))) (snd (e_op e)) (fst (e_ret e)).
Proof. exact site_legal_pairs. Qed.
Print Assumptions C17_site_events_follow_reports.

(* ---- both components end to end (Model.e2e_step) ----
   Variant Repaired = /repo HEAD for the three eviction repairs (94649ad, c1f4ba1, 49433a1).
   For EVERY history of DISCOVER / REQUEST / SOLICIT / PADR (replayed PADRs included, no hypothesis):
   after every operation every tuple has no session at all or exactly ONE live session over both
   components, which is the registry owner; and the session the last operation created (or found, for
   an IPoE packet of an existing IPoE session) is that session: the newer claim displaces, and survives. *)
Theorem C17_e2e_newest_survives :
  forall ops o,
    let w' := e2e_step Repaired (e2e_run Repaired world0 ops) o in
    (forall k, e2e_snapshot w' k = (0%nat, 0%nat, None) \/
               e2e_snapshot w' k = (1%nat, 0%nat, Some proto_ipoe) \/
               e2e_snapshot w' k = (0%nat, 1%nat, Some proto_pppoe)) /\
    match o with
    | EDiscover k | ERequest k | ESolicit k => e2e_snapshot w' k = (1%nat, 0%nat, Some proto_ipoe)
    | EPadr k => e2e_snapshot w' k = (0%nat, 1%nat, Some proto_pppoe)
    end.
Proof. exact e2e_newest_survives. Qed.
Print Assumptions C17_e2e_newest_survives.

(* Historical for REQUEST/SOLICIT (fixed in /repo c1f4ba1, signature ipoe-session-without-claim): MixedAccess was set only
   in handleDiscover.  The same model operation (an ipoe creation path whose session does not claim) is what /repo's
   restoreFromHASync did at an HA promotion before /repo e71725e (signature ipoe-ha-promoted-session-without-claim, fixed).  An IPoE
   session created by DHCPREQUEST or DHCPv6 SOLICIT never claims its tuple: it owns nothing and shares
   the tuple with a PPPoE session, whichever came first. *)
Theorem C17_e2e_exclusive_refuted_pre_c1f4ba1_pre_e71725e :
  e2e_snapshot (e2e_run NoClaimOnRequestSolicit world0 [ERequest e2e_k]) e2e_k = (1%nat, 0%nat, None) /\
  e2e_snapshot (e2e_run NoClaimOnRequestSolicit world0 [ERequest e2e_k; EPadr e2e_k]) e2e_k = (1%nat, 1%nat, Some proto_pppoe) /\
  e2e_snapshot (e2e_run NoClaimOnRequestSolicit world0 [ESolicit e2e_k; EPadr e2e_k]) e2e_k = (1%nat, 1%nat, Some proto_pppoe) /\
  e2e_snapshot (e2e_run NoClaimOnRequestSolicit world0 [EPadr e2e_k; ERequest e2e_k]) e2e_k = (1%nat, 1%nat, Some proto_pppoe) /\
  e2e_snapshot (e2e_run NoClaimOnRequestSolicit world0 [EPadr e2e_k; ESolicit e2e_k]) e2e_k = (1%nat, 1%nat, Some proto_pppoe).
Proof. exact e2e_unclaimed_paths_witness. Qed.
Print Assumptions C17_e2e_exclusive_refuted_pre_c1f4ba1_pre_e71725e.

(* Historical (fixed in /repo 49433a1, signature pppoe-superseded-session-survives): the PPPoE session displaced by a
   replayed PADR was reported by the registry and ignored by addToIndexes; it stays alive without the tuple, and after
   an IPoE takeover an IPoE and a PPPoE session are live on one tuple. *)
Theorem C17_e2e_exclusive_refuted_superseded :
  e2e_snapshot (e2e_run SupersededSurvives world0 [EPadr e2e_k; EPadr e2e_k]) e2e_k = (0%nat, 2%nat, Some proto_pppoe) /\
  e2e_snapshot (e2e_run SupersededSurvives world0 [EPadr e2e_k; EPadr e2e_k; EDiscover e2e_k]) e2e_k = (1%nat, 1%nat, Some proto_ipoe).
Proof. exact e2e_superseded_witness. Qed.
Print Assumptions C17_e2e_exclusive_refuted_superseded.

(* Historical witness (fixed in /repo 94649ad, signature eviction-kills-displacing-session): a terminate
   event resolved to whatever session sat on the tuple, in the publishing component its own new
   session; after a cross-protocol takeover NO session was left. *)
Theorem C17_e2e_newest_survives_refuted :
  e2e_snapshot (e2e_run Defective world0 [EDiscover e2e_k; EPadr e2e_k]) e2e_k = (0%nat, 0%nat, None) /\
  e2e_snapshot (e2e_run Defective world0 [EPadr e2e_k; EDiscover e2e_k]) e2e_k = (0%nat, 0%nat, None).
Proof. exact e2e_defective_witness. Qed.
Print Assumptions C17_e2e_newest_survives_refuted.

(* the repaired pppoe call site names every session its claim displaced, exactly once *)
Theorem C17_pppoe_site_reports_every_displaced :
  forall self r k sid,
    snd (component_claim_any self r k sid) =
    match lookup r k with
    | Some prev => if same_id prev (mkOwner self sid k) then [] else [o_sid prev]
    | None => []
    end.
Proof. exact component_claim_any_events. Qed.
Print Assumptions C17_pppoe_site_reports_every_displaced.

(* ---- the eviction protocol with an ASYNCHRONOUS bus and session teardown (Model.a_step) ----
   Operations: an IPoE creation path on a tuple, a PADR, a PADT for the tuple's current PPPoE session, a published
   terminate request for the tuple's IPoE session, and the delivery of the oldest queued terminate event to both
   components, the two handlers in EITHER order (ADeliver: ipoe first, ADeliverPI: pppoe first — the dispatcher starts
   them concurrently and they share only the registry, one atomic Release each) — in ANY order (evictions may stay
   queued while sessions come and go).  For every history:
   (1) every live session is the owner of its tuple or has a terminate event naming it in the queue;
   (2) the owner of a tuple is a live session;
   (3) whenever the queue is empty — all evictions processed — every live session on a tuple is its owner: an IPoE
       session excludes every PPPoE session of the tuple and vice versa, and two PPPoE entries of a tuple are the
       same session.  No two live sessions of different protocols coexist once the evictions are processed. *)
Theorem C17_async_eviction_protocol :
  forall ops,
    let aw := a_run Repaired aworld0 ops in
    let w := a_w aw in
    (forall k s, m_get k (w_ipoe w) = Some s -> reg_get (w_reg w) k = Some s \/ In (o_sid s, k) (a_q aw)) /\
    (forall k sid, In (k, sid) (w_pp_all w) -> reg_get (w_reg w) k = Some (ppo sid k) \/ In (sid, k) (a_q aw)) /\
    (forall k o, reg_get (w_reg w) k = Some o ->
       m_get k (w_ipoe w) = Some o \/ (o = ppo (o_sid o) k /\ In (k, o_sid o) (w_pp_all w))) /\
    (a_q aw = [] ->
     forall k,
       (forall s, m_get k (w_ipoe w) = Some s -> reg_get (w_reg w) k = Some s /\ count_pp k (w_pp_all w) = 0%nat) /\
       (forall sid, In (k, sid) (w_pp_all w) ->
          reg_get (w_reg w) k = Some (ppo sid k) /\ m_get k (w_ipoe w) = None /\
          forall sid', In (k, sid') (w_pp_all w) -> sid' = sid)).
Proof. exact async_eviction_protocol. Qed.
Print Assumptions C17_async_eviction_protocol.

(* both protocols live on one tuple WHILE the eviction is queued; one session once it is delivered; a PADT of the
   displacing session before the delivery leaves the tuple empty; a longer interleaving *)
Example C17_async_nonvacuous :
  e2e_snapshot (a_w (a_run Repaired aworld0 [ACreateI ak; APadr ak])) ak = (1%nat, 1%nat, Some proto_pppoe) /\
  length (a_q (a_run Repaired aworld0 [ACreateI ak; APadr ak])) = 1%nat /\
  e2e_snapshot (a_w (a_run Repaired aworld0 [ACreateI ak; APadr ak; ADeliver])) ak = (0%nat, 1%nat, Some proto_pppoe) /\
  a_q (a_run Repaired aworld0 [ACreateI ak; APadr ak; ADeliver]) = [] /\
  e2e_snapshot (a_w (a_run Repaired aworld0 [ACreateI ak; APadr ak; APadt ak; ADeliver])) ak = (0%nat, 0%nat, None) /\
  e2e_snapshot (a_w (a_run Repaired aworld0 [APadr ak; ACreateI ak; AOperI ak; APadr ak; ADeliver; ADeliver; ADeliver])) ak
    = (0%nat, 1%nat, Some proto_pppoe).
Proof. exact async_example. Qed.
Print Assumptions C17_async_nonvacuous.

Example C17_deliver_orders_nonvacuous :
  e2e_snapshot (a_w (a_run Repaired aworld0 [ACreateI ak; APadr ak; ADeliverPI])) ak =
  e2e_snapshot (a_w (a_run Repaired aworld0 [ACreateI ak; APadr ak; ADeliver])) ak /\
  e2e_snapshot (a_w (a_run Repaired aworld0 [APadr ak; ACreateI ak; AOperI ak; APadr ak; ADeliverPI; ADeliver; ADeliverPI])) ak =
  (0%nat, 1%nat, Some proto_pppoe).
Proof. exact deliver_orders_example. Qed.
Print Assumptions C17_deliver_orders_nonvacuous.

(* ---- ownership across a RESTART (Model.e2e_restart: the registry starts empty and every session the
        components restore from their checkpoints claims its tuple again) ----
   For every history, a restart rebuilds exactly the ownership there was: every live session owns its
   tuple again, every tuple without a session is unowned, and the per-tuple observation is unchanged. *)
Theorem C17_restore_reowns :
  forall ops,
    let w := e2e_run Repaired world0 ops in
    forall k, reg_get (w_reg (e2e_restart w)) k = reg_get (w_reg w) k /\
              e2e_snapshot (e2e_restart w) k = e2e_snapshot w k.
Proof. exact restart_reowns_run. Qed.
Print Assumptions C17_restore_reowns.

(* Historical (fixed in /repo d2827a3, signature ipoe-restored-halfopen-session-without-claim): the ipoe restore
   path claimed only at the end of setupSessionRestore; a session checkpointed half-established (or whose
   dataplane restore failed) was put back into the session tables without a claim: it owned nothing after the
   restart and a PPPoE session then shared its tuple. *)
Theorem C17_restore_reowns_refuted_pre_d2827a3 :
  let w := e2e_run Repaired world0 [EDiscover e2e_k] in
  e2e_snapshot (e2e_restart_skipping Repaired [e2e_k] w) e2e_k = (1%nat, 0%nat, None) /\
  e2e_snapshot (e2e_step Repaired (e2e_restart_skipping Repaired [e2e_k] w) (EPadr e2e_k)) e2e_k = (1%nat, 1%nat, Some proto_pppoe) /\
  e2e_snapshot (e2e_restart w) e2e_k = (1%nat, 0%nat, Some proto_ipoe).
Proof. exact restart_skipping_witness. Qed.
Print Assumptions C17_restore_reowns_refuted_pre_d2827a3.

(* ---- non-vacuity ---- *)
Definition k1 : key := mkKey 100 10 [2; 170; 187; 204; 0; 1]%N.
Definition k2 : key := mkKey 100 10 [2; 170; 187; 204; 0; 17]%N.     (* same shard as k1 *)
Definition oa : owner := mkOwner proto_ipoe [115; 49]%N k1.
Definition ob : owner := mkOwner proto_pppoe [115; 50]%N k1.

(* a history in which a displacement happens, the stale release is harmless, and two tuples
   collide in one shard *)
Example C17_sequential_nonvacuous :
  shard_for k1 = shard_for k2 /\
  snd (reg_run new_registry
         [OClaim k1 oa; OClaim k2 oa; OClaim k1 ob; ORelease k1 oa; OLookup k1; OIsOwner k1 oa;
          OIsOwner k1 ob; ORelease k1 ob; OLookup k1; OLookup k2]) =
  [RNil; RNil; ROwner oa; RUnit; ROwner ob; RBool false; RBool true; RUnit; RNil; ROwner oa] /\
  fst (tenure_counts new_registry k1
         [OClaim k1 oa; OClaim k2 oa; OClaim k1 ob; ORelease k1 oa; ORelease k1 ob]) = (2, 1, 1)%nat /\
  snd (component_claim proto_pppoe (fst (reg_run new_registry [OClaim k1 oa])) k1 [115; 50]%N) = [[115; 49]%N] /\
  (* hypotheses of C17_displaced_reported_once with a non-empty continuation *)
  snd (reg_step (fst (reg_run new_registry [OClaim k1 oa])) (OClaim k1 ob)) = ROwner oa /\
  forallb (fun x => negb (claim_by k1 oa x)) [OClaim k2 oa; OClaim k1 ob; ORelease k1 oa; OLookup k1] = true /\
  (* hypothesis of C17_legal_reported_once: oa reported twice, it re-claimed in between *)
  legal_from new_registry ([(OClaim k1 oa, RNil)] ++ (OClaim k1 ob, ROwner oa) ::
                           [(OLookup k1, ROwner ob); (OClaim k1 oa, ROwner ob)] ++ (OClaim k1 ob, ROwner oa) :: []).
Proof. vm_compute. repeat split; reflexivity. Qed.
Print Assumptions C17_sequential_nonvacuous.

(* a reachable quiescent configuration: two overlapping claims on one tuple (the later invoker wins
   the lock), then two lookups inside the shard's read lock at the same time *)
Example C17_linearizable_nonvacuous :
  exists c, t_reach ex_progs c /\ quiescent c /\ c_hist c = ex_hist.
Proof. exact ex_reachable. Qed.
Print Assumptions C17_linearizable_nonvacuous.

(* a reachable configuration in which a writer holds the shard lock and an invoked writer is blocked *)
Example C17_blocked_nonvacuous :
  exists c,
    t_reach ex_progs c /\ t_st (c_th c 1%nat) = TLocked (OClaim ex_key ex_b) /\
    t_st (c_th c 0%nat) = TInvoked (OClaim ex_key ex_a) /\
    ~ can_acquire lock_of op_is_read (c_th c) 0%nat (OClaim ex_key ex_a).
Proof. exact ex_blocked. Qed.
Print Assumptions C17_blocked_nonvacuous.

(* a reachable configuration with two readers inside the same shard lock at once *)
Example C17_two_readers_nonvacuous :
  exists c, t_reach ex_progs c /\ t_st (c_th c 0%nat) = TLocked (OLookup ex_key) /\
            t_st (c_th c 1%nat) = TLocked (OLookup ex_key).
Proof. exact ex_two_readers. Qed.
Print Assumptions C17_two_readers_nonvacuous.
