(* C17/Linearizable.v — the generic theorem of Atomic.v instantiated for the exclusivity table:
   16 cells (the shards), lock of an operation = shardFor of its tuple, IsOwner/Lookup take the
   lock in read mode, the critical section is the body of the Go method (Model.shard_step). *)
From OV Require Import Common.Base C17.Model C17.Proofs C17.Atomic.

Definition lock_of (o : op) : nat := shard_idx (op_key o).
Definition store_of (r : registry) : nat -> shard := fun i => nth i r [].

Definition t_config := config nat shard op ret.
Definition t_event := event op ret.
Definition t_entry := entry op ret.
Definition t_step : t_config -> t_config -> Prop := step Nat.eq_dec lock_of op_is_read shard_step.
Definition t_reach (progs : nat -> list op) : t_config -> Prop :=
  reach Nat.eq_dec lock_of op_is_read shard_step (store_of new_registry) progs.

(* legality of a sequential history for the sequential model of the table *)
Fixpoint reg_legal (r : registry) (lin : list t_entry) : Prop :=
  match lin with
  | [] => True
  | e :: rest => snd (reg_step r (e_op e)) = e_ret e /\ reg_legal (fst (reg_step r (e_op e))) rest
  end.

Definition table_linearizable (h : list t_event) : Prop :=
  exists lin : list t_entry,
    (forall t, proj t h = proj t (expand lin)) /\
    reg_legal new_registry lin /\
    NoDup (ids lin) /\
    (forall a r b o, before (ERes a r) (EInv b o) h -> before a b (ids lin)).

(* a store (function from lock ids to cells) represents a registry *)
Definition repr (s : nat -> shard) (r : registry) : Prop :=
  reg_ok r /\ forall i, (i < num_shards)%nat -> s i = nth i r [].

Lemma repr_new : repr (store_of new_registry) new_registry.
Proof. split; [apply new_registry_ok | reflexivity]. Qed.

Lemma repr_step s r o : repr s r ->
  snd (gstep Nat.eq_dec lock_of shard_step s o) = snd (reg_step r o) /\
  repr (fst (gstep Nat.eq_dec lock_of shard_step s o)) (fst (reg_step r o)).
Proof.
  intros [Hok Hs]. unfold gstep, reg_step, lock_of. cbn [fst snd].
  rewrite (Hs (shard_idx (op_key o)) (shard_idx_lt _)). split; [reflexivity|].
  split; [unfold reg_ok; rewrite set_nth_length; exact Hok|].
  intros i Hi. unfold upd. destruct (Nat.eq_dec i (shard_idx (op_key o))) as [->|N].
  - rewrite nth_set_nth_same by (rewrite Hok; apply shard_idx_lt). reflexivity.
  - rewrite nth_set_nth_other by congruence. apply Hs. exact Hi.
Qed.

Lemma legal_reg_legal lin : forall s r, repr s r ->
  legal Nat.eq_dec lock_of shard_step s lin -> reg_legal r lin.
Proof.
  induction lin as [|e rest IH]; intros s r Hr; cbn [legal reg_legal]; [auto|].
  destruct (repr_step s r (e_op e) Hr) as [E R']. intros [H1 H2]. split; [congruence|].
  eapply IH; eauto.
Qed.

Lemma table_ops_linearizable progs c :
  t_reach progs c -> quiescent c -> table_linearizable (c_hist c).
Proof.
  intros R Q.
  destruct (@atomic_ops_linearizable _ _ _ _ Nat.eq_dec lock_of op_is_read shard_step shard_step_read_pure _ _ _ R Q)
    as [lin [A [B [C D]]]].
  exists lin. repeat split; auto. eapply legal_reg_legal; [apply repr_new | exact B].
Qed.

(* ---- non-vacuity: two sessions of different protocols claim the same tuple; the two
        operations overlap in real time (both invoked before either responds) ---- *)
Definition ex_key : key := mkKey 100 10 [2; 170; 187; 204; 0; 1]%N.
Definition ex_a : owner := mkOwner proto_ipoe [115; 49]%N ex_key.
Definition ex_b : owner := mkOwner proto_pppoe [115; 50]%N ex_key.
Definition ex_progs (t : nat) : list op :=
  match t with
  | 0%nat => [OClaim ex_key ex_a]
  | 1%nat => [OClaim ex_key ex_b; OLookup ex_key]
  | _ => []
  end.
Definition ex_hist : list t_event :=
  [EInv (0, 0)%nat (OClaim ex_key ex_a); EInv (1, 0)%nat (OClaim ex_key ex_b);
   ERes (1, 0)%nat RNil; ERes (0, 0)%nat (ROwner ex_b);
   EInv (1, 1)%nat (OLookup ex_key); ERes (1, 1)%nat (ROwner ex_a)].

Lemma reach_next {progs c c'} : t_reach progs c -> t_step c c' -> t_reach progs c'.
Proof. intros R S. eapply Relation_Operators.rtn1_trans; eauto. Qed.

Ltac acq_ok := let t' := fresh in let o' := fresh in let Hne := fresh in let Hh := fresh in
  intros t' o' Hne Hh; destruct t' as [|[|t']]; simpl in Hh; try discriminate; congruence.
Ltac go R n ctor :=
  eapply reach_next in R;
  [| unfold t_step; eapply ctor with (t := n); [reflexivity | try acq_ok ..]].

Lemma ex_reachable : exists c, t_reach ex_progs c /\ quiescent c /\ c_hist c = ex_hist.
Proof.
  assert (R : t_reach ex_progs (init (store_of new_registry) ex_progs)) by constructor.
  unfold init in R.
  (* thread 0 invokes; thread 1 invokes and runs its Claim to completion; thread 0 proceeds;
     thread 1 looks the tuple up *)
  go R 0%nat s_invoke. go R 1%nat s_invoke.
  go R 1%nat s_acquire. go R 1%nat s_read. go R 1%nat s_finish. go R 1%nat s_unlock. go R 1%nat s_respond.
  go R 0%nat s_acquire. go R 0%nat s_read. go R 0%nat s_finish. go R 0%nat s_unlock. go R 0%nat s_respond.
  go R 1%nat s_invoke.
  go R 1%nat s_acquire. go R 1%nat s_read. go R 1%nat s_finish. go R 1%nat s_unlock. go R 1%nat s_respond.
  eexists. split; [exact R|]. split.
  - intros t. destruct t as [|[|t]]; reflexivity.
  - vm_compute. reflexivity.
Qed.
