(* C17/Linearizable.v — the generic theorem of Atomic.v instantiated for the exclusivity table:
   16 cells (the shards), lock of an operation = shardFor of its tuple, IsOwner/Lookup take the
   lock in read mode, the critical section is the body of the Go method (Model.shard_step). *)
From OV Require Import Common.Base C17.Model C17.Proofs C17.Atomic.

Definition lock_of (o : op) : nat := shard_idx (op_key o).
Definition store_of (r : registry) : nat -> shard := fun i => nth i r [].

Definition t_config := config nat shard op ret.
Definition t_event := event op ret.
Definition t_entry := entry op ret.
Definition t_step : t_config -> t_config -> Prop := step Nat.eq_dec lock_of op_is_read shard_step.
Definition t_reach (progs : nat -> list op) : t_config -> Prop :=
  reach Nat.eq_dec lock_of op_is_read shard_step (store_of new_registry) progs.

(* legality of a sequential history for the sequential model of the table *)
Fixpoint reg_legal (r : registry) (lin : list t_entry) : Prop :=
  match lin with
  | [] => True
  | e :: rest => snd (reg_step r (e_op e)) = e_ret e /\ reg_legal (fst (reg_step r (e_op e))) rest
  end.

Definition table_linearizable (h : list t_event) : Prop :=
  exists lin : list t_entry,
    (forall t, proj t h = proj t (expand lin)) /\
    reg_legal new_registry lin /\
    NoDup (ids lin) /\
    (forall a r b o, before (ERes a r) (EInv b o) h -> before a b (ids lin)).

(* a store (function from lock ids to cells) represents a registry *)
Definition repr (s : nat -> shard) (r : registry) : Prop :=
  reg_ok r /\ forall i, (i < num_shards)%nat -> s i = nth i r [].

Lemma repr_new : repr (store_of new_registry) new_registry.
Proof. split; [apply new_registry_ok | reflexivity]. Qed.

Lemma repr_step s r o : repr s r ->
  snd (gstep Nat.eq_dec lock_of shard_step s o) = snd (reg_step r o) /\
  repr (fst (gstep Nat.eq_dec lock_of shard_step s o)) (fst (reg_step r o)).
Proof.
  intros [Hok Hs]. unfold gstep, reg_step, lock_of. cbn [fst snd].
  rewrite (Hs (shard_idx (op_key o)) (shard_idx_lt _)). split; [reflexivity|].
  split; [unfold reg_ok; rewrite set_nth_length; exact Hok|].
  intros i Hi. unfold upd. destruct (Nat.eq_dec i (shard_idx (op_key o))) as [->|N].
  - rewrite nth_set_nth_same by (rewrite Hok; apply shard_idx_lt). reflexivity.
  - rewrite nth_set_nth_other by congruence. apply Hs. exact Hi.
Qed.

Lemma legal_reg_legal lin : forall s r, repr s r ->
  legal Nat.eq_dec lock_of shard_step s lin -> reg_legal r lin.
Proof.
  induction lin as [|e rest IH]; intros s r Hr; cbn [legal reg_legal]; [auto|].
  destruct (repr_step s r (e_op e) Hr) as [E R']. intros [H1 H2]. split; [congruence|].
  eapply IH; eauto.
Qed.

Lemma table_ops_linearizable progs c :
  t_reach progs c -> quiescent c -> table_linearizable (c_hist c).
Proof.
  intros R Q.
  destruct (@atomic_ops_linearizable _ _ _ _ Nat.eq_dec lock_of op_is_read shard_step shard_step_read_pure _ _ _ R Q)
    as [lin [A [B [C D]]]].
  exists lin. repeat split; auto. eapply legal_reg_legal; [apply repr_new | exact B].
Qed.

(* ---- corollaries over concurrent executions ---- *)
Definition pairs (lin : list t_entry) : list (op * ret) := map (fun e => (e_op e, e_ret e)) lin.

Lemma reg_legal_from lin : forall r, reg_legal r lin <-> legal_from r (pairs lin).
Proof. induction lin as [|e t IH]; intros r; cbn [reg_legal pairs map legal_from]; [tauto | rewrite IH; tauto]. Qed.
Lemma pairs_ops lin : map fst (pairs lin) = map (@e_op op ret) lin.
Proof. unfold pairs. rewrite map_map. reflexivity. Qed.

Lemma repr_run lin : forall s r, repr s r ->
  repr (run Nat.eq_dec lock_of shard_step s lin) (fst (reg_run r (map (@e_op op ret) lin))).
Proof.
  induction lin as [|e t IH]; intros s r Hr; [exact Hr|].
  cbn [run map]. rewrite reg_run_cons. cbn [fst]. apply IH. apply repr_step. exact Hr.
Qed.

(* The shared memory of ANY reachable configuration — threads may be anywhere inside their
   critical sections — is the table some legal sequential history produces. *)
Lemma concurrent_state progs c : t_reach progs c ->
  exists lin : list t_entry,
    reg_legal new_registry lin /\
    let r := fst (reg_run new_registry (map (@e_op op ret) lin)) in
    reg_wf r /\ forall i, (i < num_shards)%nat -> c_sh c i = nth i r [].
Proof.
  intros R.
  destruct (@atomic_state_is_sequential _ _ _ _ Nat.eq_dec lock_of op_is_read shard_step shard_step_read_pure _ _ _ R)
    as [lin [Hst [Hleg _]]].
  exists lin. split; [eapply legal_reg_legal; [apply repr_new | exact Hleg]|].
  cbn zeta. split; [apply reg_run_wf; apply new_registry_wf|].
  intros i Hi. rewrite Hst. destruct (repr_run lin _ _ repr_new) as [_ H]. apply H. exact Hi.
Qed.

(* single owner at every moment of every concurrent execution: in the shared memory of any
   reachable configuration a tuple is stored at most once over all shards, in its own shard, and
   two sessions that would both pass IsOwner on that memory are the same session *)
Lemma concurrent_single_owner progs c : t_reach progs c ->
  (forall k i j v w, (i < num_shards)%nat -> (j < num_shards)%nat ->
     In (k, v) (c_sh c i) -> In (k, w) (c_sh c j) ->
     i = j /\ v = w /\ i = shard_idx k /\ m_get k (c_sh c (shard_idx k)) = Some v) /\
  (forall k o1 o2 cur1 cur2,
     m_get k (c_sh c (shard_idx k)) = Some cur1 -> same_id cur1 o1 = true ->
     m_get k (c_sh c (shard_idx k)) = Some cur2 -> same_id cur2 o2 = true -> same_id o1 o2 = true).
Proof.
  intros R. destruct (concurrent_state progs c R) as [lin [_ [Hwf Hsh]]].
  set (r := fst (reg_run new_registry (map (@e_op op ret) lin))) in *. split.
  - intros k i j v w Hi Hj Hv Hw. rewrite (Hsh i Hi) in Hv. rewrite (Hsh j Hj) in Hw.
    destruct (stored_once r Hwf k i j v w Hv Hw) as [E1 [E2 E3]]. split; [exact E1|]. split; [exact E2|].
    destruct Hwf as [_ Hs]. destruct (Hs i) as [_ Hin]. pose proof (Hin _ _ Hv) as Ei. split; [congruence|].
    rewrite (Hsh _ (shard_idx_lt k)). exact E3.
  - intros k o1 o2 cur1 cur2 H1 S1 H2 S2. rewrite H1 in H2. inversion H2; subst cur2.
    rewrite same_id_sym in S1. eapply same_id_trans; eauto.
Qed.

(* every complete concurrent history: linearizable, and in the linearization — which contains
   exactly the responses of the history, from all threads — (a) a claim reports p exactly when p
   was the owner at that point and is another session, (b) a session is reported as displaced from
   a tuple twice only if it claimed the tuple again in between, (c) at every point of the
   linearization the table stores each tuple at most once *)
Lemma concurrent_reported_once progs c : t_reach progs c -> quiescent c ->
  exists lin : list t_entry,
    (forall t, proj t (c_hist c) = proj t (expand lin)) /\
    reg_legal new_registry lin /\ NoDup (ids lin) /\
    (forall a r b o, before (ERes a r) (EInv b o) (c_hist c) -> before a b (ids lin)) /\
    (forall id r, In (ERes id r) (c_hist c) <-> exists o, In ((id, o, r) : t_entry) lin) /\
    (forall pre e post k o, lin = pre ++ e :: post -> e_op e = OClaim k o ->
       e_ret e = match lookup (state_after new_registry (pairs pre)) k with
                 | Some p => if same_id p o then RNil else ROwner p
                 | None => RNil end) /\
    (forall pre e1 mid e2 post k o1 p1 o2 p2,
       lin = pre ++ e1 :: mid ++ e2 :: post ->
       e_op e1 = OClaim k o1 -> e_ret e1 = ROwner p1 ->
       e_op e2 = OClaim k o2 -> e_ret e2 = ROwner p2 -> same_id p2 p1 = true ->
       exists e, In e mid /\ claim_by k p1 (e_op e) = true) /\
    (forall pre post, lin = pre ++ post -> reg_wf (state_after new_registry (pairs pre))).
Proof.
  intros R Q. destruct (table_ops_linearizable progs c R Q) as [lin [A [B [C D]]]].
  exists lin. split; [exact A|]. split; [exact B|]. split; [exact C|]. split; [exact D|].
  split; [|split; [|split]].
  - intros id r. split.
    + intros H. apply (proj_same_events _ _ A) in H. apply in_expand_res in H. exact H.
    + intros H. apply (proj_same_events _ _ A). apply in_expand_res. exact H.
  - intros pre e post k o -> Ho. apply reg_legal_from in B. unfold pairs in B. rewrite map_app in B.
    cbn [map] in B. rewrite Ho in B. eapply legal_claim_reports. exact B.
  - intros pre e1 mid e2 post k o1 p1 o2 p2 -> Ho1 Hr1 Ho2 Hr2 Hs.
    apply reg_legal_from in B. unfold pairs in B. rewrite map_app in B. cbn [map] in B.
    rewrite map_app in B. cbn [map] in B. rewrite Ho1, Hr1, Ho2, Hr2 in B.
    destruct (legal_reported_once _ _ _ _ _ _ _ _ B Hs) as [ox [Hin Hc]].
    apply in_map_iff in Hin. destruct Hin as [e [<- Hin]]. exists e. auto.
  - intros pre post _. unfold state_after. apply reg_run_wf. apply new_registry_wf.
Qed.

(* ---- non-vacuity: two sessions of different protocols claim the same tuple; the two
        operations overlap in real time (both invoked before either responds) ---- *)
Definition ex_key : key := mkKey 100 10 [2; 170; 187; 204; 0; 1]%N.
Definition ex_a : owner := mkOwner proto_ipoe [115; 49]%N ex_key.
Definition ex_b : owner := mkOwner proto_pppoe [115; 50]%N ex_key.
Definition ex_progs (t : nat) : list op :=
  match t with
  | 0%nat => [OClaim ex_key ex_a; OLookup ex_key]
  | 1%nat => [OClaim ex_key ex_b; OLookup ex_key]
  | _ => []
  end.
Definition ex_hist : list t_event :=
  [EInv (0, 0)%nat (OClaim ex_key ex_a); EInv (1, 0)%nat (OClaim ex_key ex_b);
   ERes (1, 0)%nat RNil; ERes (0, 0)%nat (ROwner ex_b);
   EInv (0, 1)%nat (OLookup ex_key); EInv (1, 1)%nat (OLookup ex_key);
   ERes (1, 1)%nat (ROwner ex_a); ERes (0, 1)%nat (ROwner ex_a)].

Lemma reach_next {progs c c'} : t_reach progs c -> t_step c c' -> t_reach progs c'.
Proof. intros R S. eapply Relation_Operators.rtn1_trans; eauto. Qed.

Ltac acq_ok := let t' := fresh in let o' := fresh in let Hne := fresh in let Hh := fresh in
  intros t' o' Hne Hh; destruct t' as [|[|t']]; simpl in Hh; try discriminate; try congruence;
  try (intros _; inversion Hh; subst; split; reflexivity).
Ltac go R n ctor :=
  eapply reach_next in R;
  [| unfold t_step; eapply ctor with (t := n); [reflexivity | try acq_ok ..]].

(* two overlapping claims (the second invoker wins the lock, the first is blocked meanwhile), then
   two lookups that hold the shard's lock in read mode AT THE SAME TIME *)
Lemma ex_reachable : exists c, t_reach ex_progs c /\ quiescent c /\ c_hist c = ex_hist.
Proof.
  assert (R : t_reach ex_progs (init (store_of new_registry) ex_progs)) by constructor.
  unfold init in R.
  go R 0%nat s_invoke. go R 1%nat s_invoke.
  go R 1%nat s_acquire. go R 1%nat s_read. go R 1%nat s_finish. go R 1%nat s_unlock. go R 1%nat s_respond.
  go R 0%nat s_acquire. go R 0%nat s_read. go R 0%nat s_finish. go R 0%nat s_unlock. go R 0%nat s_respond.
  go R 0%nat s_invoke. go R 1%nat s_invoke.
  go R 0%nat s_acquire. go R 1%nat s_acquire.        (* both readers inside *)
  go R 0%nat s_read. go R 1%nat s_read. go R 1%nat s_finish. go R 0%nat s_finish.
  go R 1%nat s_unlock. go R 0%nat s_unlock. go R 1%nat s_respond. go R 0%nat s_respond.
  eexists. split; [exact R|]. split.
  - intros t. destruct t as [|[|t]]; reflexivity.
  - vm_compute. reflexivity.
Qed.

(* while thread 1 holds the shard's write lock, thread 0 (already invoked) cannot acquire it *)
Lemma ex_blocked : exists c,
  t_reach ex_progs c /\ t_st (c_th c 1%nat) = TLocked (OClaim ex_key ex_b) /\
  t_st (c_th c 0%nat) = TInvoked (OClaim ex_key ex_a) /\
  ~ can_acquire lock_of op_is_read (c_th c) 0%nat (OClaim ex_key ex_a).
Proof.
  assert (R : t_reach ex_progs (init (store_of new_registry) ex_progs)) by constructor.
  unfold init in R.
  go R 0%nat s_invoke. go R 1%nat s_invoke. go R 1%nat s_acquire.
  eexists. split; [exact R|]. split; [reflexivity|]. split; [reflexivity|].
  intros H. destruct (H 1%nat (OClaim ex_key ex_b)) as [E _]; [discriminate | reflexivity | reflexivity | discriminate].
Qed.

(* two readers hold the shard's lock at the same time *)
Lemma ex_two_readers : exists c,
  t_reach ex_progs c /\ t_st (c_th c 0%nat) = TLocked (OLookup ex_key) /\ t_st (c_th c 1%nat) = TLocked (OLookup ex_key).
Proof.
  assert (R : t_reach ex_progs (init (store_of new_registry) ex_progs)) by constructor.
  unfold init in R.
  go R 0%nat s_invoke. go R 1%nat s_invoke.
  go R 1%nat s_acquire. go R 1%nat s_read. go R 1%nat s_finish. go R 1%nat s_unlock. go R 1%nat s_respond.
  go R 0%nat s_acquire. go R 0%nat s_read. go R 0%nat s_finish. go R 0%nat s_unlock. go R 0%nat s_respond.
  go R 0%nat s_invoke. go R 1%nat s_invoke.
  go R 0%nat s_acquire. go R 1%nat s_acquire.
  eexists. split; [exact R|]. split; reflexivity.
Qed.

(* ---- call sites as concurrent operations: the registry operation TOGETHER WITH the events the
        component publishes from its return value ----
   A site operation = (protocol of the component, does it evict same-protocol sessions, registry op);
   its result = (registry result, published session ids).  The critical section is the registry
   method; the events are computed from that method's own return value. *)
Definition site_op := (bytes * bool * op)%type.
Definition site_ret := (ret * list bytes)%type.
Definition site_events_v (any : bool) (self : bytes) (o : op) (x : ret) : list bytes :=
  match o, x with
  | OClaim _ _, ROwner prev => if any || negb (bytes_eqb (o_proto prev) self) then [o_sid prev] else []
  | _, _ => []
  end.
Definition site_step (s : shard) (so : site_op) : shard * site_ret :=
  let '(self, any, o) := so in
  let sr := shard_step s o in (fst sr, (snd sr, site_events_v any self o (snd sr))).
Definition site_lock (so : site_op) : nat := lock_of (snd so).
Definition site_is_read (so : site_op) : bool := op_is_read (snd so).
Lemma site_step_read_pure s so : site_is_read so = true -> fst (site_step s so) = s.
Proof. destruct so as [[self any] o]. unfold site_is_read, site_step. simpl. apply shard_step_read_pure. Qed.

Definition s_reach (progs : nat -> list site_op) :=
  reach Nat.eq_dec site_lock site_is_read site_step (store_of new_registry) progs.

(* sequential legality for site histories, over the registry model *)
Fixpoint site_legal (r : registry) (lin : list (entry site_op site_ret)) : Prop :=
  match lin with
  | [] => True
  | e :: rest =>
      let '(self, any, o) := e_op e in
      e_ret e = (snd (reg_step r o), site_events_v any self o (snd (reg_step r o))) /\
      site_legal (fst (reg_step r o)) rest
  end.

Lemma site_repr_step s r so : repr s r ->
  snd (gstep Nat.eq_dec site_lock site_step s so) =
    (snd (reg_step r (snd so)), site_events_v (snd (fst so)) (fst (fst so)) (snd so) (snd (reg_step r (snd so)))) /\
  repr (fst (gstep Nat.eq_dec site_lock site_step s so)) (fst (reg_step r (snd so))).
Proof.
  destruct so as [[self any] o]. intros Hr. destruct (repr_step s r o Hr) as [A B].
  unfold gstep, site_lock, site_step in *. cbn [fst snd] in *. rewrite A. split; [reflexivity | exact B].
Qed.
Lemma site_legal_of lin : forall s r, repr s r ->
  legal Nat.eq_dec site_lock site_step s lin -> site_legal r lin.
Proof.
  induction lin as [|e rest IH]; intros s r Hr; cbn [legal site_legal]; [auto|].
  destruct (site_repr_step s r (e_op e) Hr) as [E R'].
  destruct (e_op e) as [[self any] o] eqn:Eo. cbn [fst snd] in *. intros [H1 H2]. split; [congruence|].
  eapply IH; eauto.
Qed.

(* every complete concurrent history of call-site invocations of both components (results = registry
   result AND published events) is linearizable w.r.t. the sequential call-site specification *)
Lemma call_sites_linearizable progs c :
  s_reach progs c -> quiescent c ->
  exists lin : list (entry site_op site_ret),
    (forall t, proj t (c_hist c) = proj t (expand lin)) /\
    site_legal new_registry lin /\ NoDup (ids lin) /\
    (forall a r b o, before (ERes a r) (EInv b o) (c_hist c) -> before a b (ids lin)).
Proof.
  intros R Q.
  destruct (@atomic_ops_linearizable _ _ _ _ Nat.eq_dec site_lock site_is_read site_step site_step_read_pure _ _ _ R Q)
    as [lin [A [B [C D]]]].
  exists lin. repeat split; auto. eapply site_legal_of; [apply repr_new | exact B].
Qed.

(* in a legal site history an event is published exactly for a reported displacement: the events of
   an entry are a function of its own registry result, so "reported once" (C17_legal_reported_once)
   carries over to "published once" *)
Lemma site_legal_pairs lin : forall r, site_legal r lin ->
  legal_from r (map (fun e => (snd (e_op e), fst (e_ret e))) lin) /\
  forall e, In e lin -> snd (e_ret e) = site_events_v (snd (fst (e_op e))) (fst (fst (e_op e))) (snd (e_op e)) (fst (e_ret e)).
Proof.
  induction lin as [|e rest IH]; intros r H.
  - split; [exact I | intros e []].
  - cbn [site_legal] in H. cbn [map legal_from].
    destruct e as [[id [[self any] o]] x]. unfold e_op, e_ret in *. cbn [fst snd] in *.
    destruct H as [H1 H2]. destruct (IH _ H2) as [A B]. subst x. cbn [fst snd]. split; [split; [reflexivity | exact A]|].
    intros e' [<-|Hin]; [reflexivity | apply B; exact Hin].
Qed.
