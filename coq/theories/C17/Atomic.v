(* C17/Atomic.v — generic theorem: operations executed under a (reader/writer) lock are
   linearizable with respect to the sequential specification.

   Setting.  The shared memory is a family of cells indexed by lock identifiers [L]
   (for C17: the 16 shards of the exclusivity table, each with its own sync.RWMutex).
   Every operation [op] names the lock [lock_of op] it takes, whether it takes it in
   read mode ([is_read op], sync.RWMutex.RLock) and what it computes on the cell
   ([cell_step]).  Operations taken in read mode do not modify the cell ([read_pure]).

   Threads run arbitrary programs (lists of operations).  One operation is executed in
   SIX small steps, so that the critical section is NOT atomic by construction:

       invoke    emit the invocation event
       acquire   take the lock of the cell (enabled only if no other thread holds it in a
                 conflicting mode: this is the mutual-exclusion contract of sync.RWMutex)
       read      copy the cell into a thread-local variable
       finish    compute on the LOCAL COPY; a writer stores the new cell back
       unlock    release the lock (Go: the deferred Unlock)
       respond   emit the response event

   Other threads can be scheduled between any two of these steps.  Without the lock the
   read/finish pair would lose updates; the theorem shows that with it every history of a
   quiescent configuration is linearizable in the sense of Herlihy & Wing:
   there is a sequential history [lin] such that
     (a) every thread sees the same sequence of invocations and responses in both,
     (b) [lin] is legal for the sequential specification [gstep],
     (c) if a's response precedes b's invocation in real time, a precedes b in [lin].

   No axioms; section variables are discharged at instantiation (see Linearizable.v). *)
From Coq Require Import List Arith Lia Bool Relations.
Import ListNotations.

Set Implicit Arguments.

(* ---------- small list facts ---------- *)
Fixpoint before {A} (x y : A) (l : list A) : Prop :=
  match l with
  | [] => False
  | a :: t => (a = x /\ In y t) \/ before x y t
  end.

Lemma before_snoc {A} (x y z : A) l :
  before x y (l ++ [z]) <-> before x y l \/ (In x l /\ y = z).
Proof.
  induction l as [|a t IH]; simpl.
  - tauto.
  - rewrite IH, in_app_iff; simpl. split.
    + intros [[E [H|[H|[]]]]|[H|[H1 H2]]]; subst; auto 6.
    + intros [[[E H]|H]|[[E|H1] H2]]; subst; auto 7.
Qed.

Lemma before_app_l {A} (x y : A) l l' : before x y l -> before x y (l ++ l').
Proof.
  induction l as [|a t IH]; simpl; [tauto|].
  intros [[E H]|H]; [left; split; auto; apply in_or_app; auto | right; auto].
Qed.

Lemma before_in {A} (x y : A) l : before x y l -> In x l /\ In y l.
Proof.
  induction l as [|a t IH]; simpl; [tauto|].
  intros [[E H]|H]; [subst; auto | destruct (IH H); auto].
Qed.

Lemma NoDup_snoc {A} (l : list A) x : NoDup l -> ~ In x l -> NoDup (l ++ [x]).
Proof.
  induction l as [|a t IH]; simpl; intros Hn Hx.
  - constructor; [tauto | constructor].
  - inversion Hn; subst. constructor.
    + rewrite in_app_iff. simpl. intros [?|[?|[]]]; [tauto | subst; tauto].
    + apply IH; tauto.
Qed.

Section Atomic.
  Variables L Cell Op Ret : Type.
  Variable L_eq_dec : forall a b : L, {a = b} + {a <> b}.
  Variable lock_of : Op -> L.
  Variable is_read : Op -> bool.
  Variable cell_step : Cell -> Op -> Cell * Ret.
  Hypothesis read_pure : forall c op, is_read op = true -> fst (cell_step c op) = c.

  (* ---------- sequential specification ---------- *)
  Definition store := L -> Cell.
  Definition upd (s : store) (l : L) (c : Cell) : store :=
    fun l' => if L_eq_dec l' l then c else s l'.
  Definition gstep (s : store) (op : Op) : store * Ret :=
    (upd s (lock_of op) (fst (cell_step (s (lock_of op)) op)), snd (cell_step (s (lock_of op)) op)).

  Definition opid := (nat * nat)%type.               (* thread, index of the operation in the thread *)
  Definition entry := (opid * Op * Ret)%type.        (* one operation of a sequential history *)
  Definition e_id (e : entry) : opid := fst (fst e).
  Definition e_op (e : entry) : Op := snd (fst e).
  Definition e_ret (e : entry) : Ret := snd e.
  Definition ids (lin : list entry) : list opid := map e_id lin.

  Fixpoint run (s : store) (lin : list entry) : store :=
    match lin with [] => s | e :: r => run (fst (gstep s (e_op e))) r end.
  Fixpoint legal (s : store) (lin : list entry) : Prop :=
    match lin with
    | [] => True
    | e :: r => snd (gstep s (e_op e)) = e_ret e /\ legal (fst (gstep s (e_op e))) r
    end.

  Lemma run_snoc s lin e : run s (lin ++ [e]) = fst (gstep (run s lin) (e_op e)).
  Proof. revert s; induction lin as [|a t IH]; intros s; cbn [run app]; [reflexivity | apply IH]. Qed.
  Lemma legal_snoc s lin e :
    legal s (lin ++ [e]) <-> legal s lin /\ snd (gstep (run s lin) (e_op e)) = e_ret e.
  Proof.
    revert s; induction lin as [|a t IH]; intros s; cbn [legal run app]; [tauto | rewrite IH; tauto].
  Qed.

  (* ---------- concurrent system ---------- *)
  Inductive tstate :=
  | TIdle
  | TInvoked (op : Op)
  | TLocked (op : Op)
  | TRead (op : Op) (c : Cell)
  | TDone (op : Op) (r : Ret)
  | TUnlocked (op : Op) (r : Ret).
  Record thread := mkT { t_k : nat; t_st : tstate; t_prog : list Op }.

  Inductive event := EInv (id : opid) (op : Op) | ERes (id : opid) (r : Ret).
  Definition ev_tid (e : event) : nat := match e with EInv id _ => fst id | ERes id _ => fst id end.

  Record config := mkC { c_sh : store; c_th : nat -> thread; c_hist : list event }.

  Definition updt (th : nat -> thread) (t : nat) (x : thread) : nat -> thread :=
    fun t' => if Nat.eq_dec t' t then x else th t'.

  (* the operation whose lock a thread currently holds *)
  Definition holding (s : tstate) : option Op :=
    match s with
    | TLocked op | TRead op _ | TDone op _ => Some op
    | _ => None
    end.
  Definition is_done (s : tstate) : bool :=
    match s with TDone _ _ | TUnlocked _ _ => true | _ => false end.

  (* sync.RWMutex: a lock can be taken when every other holder of the same lock is a
     reader and the taker is a reader too *)
  Definition can_acquire (th : nat -> thread) (t : nat) (op : Op) : Prop :=
    forall t' op', t' <> t -> holding (t_st (th t')) = Some op' -> lock_of op' = lock_of op ->
                   is_read op = true /\ is_read op' = true.

  Inductive step : config -> config -> Prop :=
  | s_invoke sh th h t k op rest :
      th t = mkT k TIdle (op :: rest) ->
      step (mkC sh th h) (mkC sh (updt th t (mkT k (TInvoked op) rest)) (h ++ [EInv (t, k) op]))
  | s_acquire sh th h t k op rest :
      th t = mkT k (TInvoked op) rest -> can_acquire th t op ->
      step (mkC sh th h) (mkC sh (updt th t (mkT k (TLocked op) rest)) h)
  | s_read sh th h t k op rest :
      th t = mkT k (TLocked op) rest ->
      step (mkC sh th h) (mkC sh (updt th t (mkT k (TRead op (sh (lock_of op))) rest)) h)
  | s_finish sh th h t k op c rest :
      th t = mkT k (TRead op c) rest ->
      step (mkC sh th h)
           (mkC (if is_read op then sh else upd sh (lock_of op) (fst (cell_step c op)))
                (updt th t (mkT k (TDone op (snd (cell_step c op))) rest)) h)
  | s_unlock sh th h t k op r rest :
      th t = mkT k (TDone op r) rest ->
      step (mkC sh th h) (mkC sh (updt th t (mkT k (TUnlocked op r) rest)) h)
  | s_respond sh th h t k op r rest :
      th t = mkT k (TUnlocked op r) rest ->
      step (mkC sh th h) (mkC sh (updt th t (mkT (S k) TIdle rest)) (h ++ [ERes (t, k) r])).

  Definition init (s0 : store) (progs : nat -> list Op) : config :=
    mkC s0 (fun t => mkT 0 TIdle (progs t)) [].
  Definition reach (s0 : store) (progs : nat -> list Op) : config -> Prop :=
    clos_refl_trans_n1 config step (init s0 progs).
  Definition quiescent (c : config) : Prop := forall t, t_st (c_th c t) = TIdle.

  (* ---------- linearizability (Herlihy & Wing) ---------- *)
  Definition expand (lin : list entry) : list event :=
    flat_map (fun e => [EInv (e_id e) (e_op e); ERes (e_id e) (e_ret e)]) lin.
  Definition proj (t : nat) (h : list event) : list event :=
    filter (fun e => Nat.eqb (ev_tid e) t) h.

  Definition linearizable (s0 : store) (h : list event) : Prop :=
    exists lin : list entry,
      (forall t, proj t h = proj t (expand lin)) /\
      legal s0 lin /\
      NoDup (ids lin) /\
      (forall a r b op, before (ERes a r) (EInv b op) h -> before a b (ids lin)).

  (* ---------- the invariant ---------- *)
  Definition linp (t : nat) (lin : list entry) : list entry :=
    filter (fun e => Nat.eqb (fst (e_id e)) t) lin.

  Definition proj_inv (t : nat) (th : thread) (h : list event) (lin : list entry) : Prop :=
    match t_st th with
    | TIdle => proj t h = expand (linp t lin)
    | TInvoked op | TLocked op | TRead op _ => proj t h = expand (linp t lin) ++ [EInv (t, t_k th) op]
    | TDone op r | TUnlocked op r =>
        proj t h ++ [ERes (t, t_k th) r] = expand (linp t lin) /\ In ((t, t_k th), op, r) lin
    end.

  Record Inv (s0 : store) (c : config) (lin : list entry) : Prop := {
    i_state : forall l, c_sh c l = run s0 lin l;
    i_legal : legal s0 lin;
    i_excl : forall t t' op op', t <> t' ->
        holding (t_st (c_th c t)) = Some op -> holding (t_st (c_th c t')) = Some op' ->
        lock_of op = lock_of op' -> is_read op = true /\ is_read op' = true;
    i_local : forall t op c0, t_st (c_th c t) = TRead op c0 -> c0 = c_sh c (lock_of op);
    i_proj : forall t, proj_inv t (c_th c t) (c_hist c) lin;
    i_ids : forall t k, In (t, k) (ids lin) ->
        k < t_k (c_th c t) \/ (k = t_k (c_th c t) /\ is_done (t_st (c_th c t)) = true);
    i_nodup : NoDup (ids lin);
    i_res : forall id r, In (ERes id r) (c_hist c) -> In id (ids lin);
    i_rt : forall a r b op, before (ERes a r) (EInv b op) (c_hist c) ->
        before a b (ids lin) \/ (In a (ids lin) /\ ~ In b (ids lin))
  }.

  Lemma proj_snoc_same t h e : ev_tid e = t -> proj t (h ++ [e]) = proj t h ++ [e].
  Proof.
    intros E. unfold proj. rewrite filter_app. simpl. rewrite E, Nat.eqb_refl. reflexivity.
  Qed.
  Lemma proj_snoc_other t h e : ev_tid e <> t -> proj t (h ++ [e]) = proj t h.
  Proof.
    intros E. unfold proj. rewrite filter_app. simpl.
    destruct (Nat.eqb_spec (ev_tid e) t); [contradiction|]. apply app_nil_r.
  Qed.
  Lemma linp_snoc_same t lin e : fst (e_id e) = t -> linp t (lin ++ [e]) = linp t lin ++ [e].
  Proof.
    intros E. unfold linp. rewrite filter_app. simpl. rewrite E, Nat.eqb_refl. reflexivity.
  Qed.
  Lemma linp_snoc_other t lin e : fst (e_id e) <> t -> linp t (lin ++ [e]) = linp t lin.
  Proof.
    intros E. unfold linp. rewrite filter_app. simpl.
    destruct (Nat.eqb_spec (fst (e_id e)) t); [contradiction|]. apply app_nil_r.
  Qed.
  Lemma expand_snoc lin e :
    expand (lin ++ [e]) = expand lin ++ [EInv (e_id e) (e_op e); ERes (e_id e) (e_ret e)].
  Proof. unfold expand. rewrite flat_map_app. reflexivity. Qed.
  Lemma ids_snoc lin e : ids (lin ++ [e]) = ids lin ++ [e_id e].
  Proof. unfold ids. rewrite map_app. reflexivity. Qed.
  Lemma proj_expand t lin : proj t (expand lin) = expand (linp t lin).
  Proof.
    induction lin as [|e r IH]; simpl; auto.
    unfold proj in *. simpl.
    destruct (Nat.eqb (fst (e_id e)) t); simpl; rewrite IH; reflexivity.
  Qed.

  Lemma expand_inv_in b op lin : In (EInv b op) (expand lin) -> In b (ids lin).
  Proof.
    induction lin as [|e r IH]; simpl; [tauto|].
    intros [E|[E|H]]; [inversion E; auto | discriminate | auto].
  Qed.
  Lemma ids_linp_incl t lin b : In b (ids (linp t lin)) -> In b (ids lin).
  Proof.
    unfold ids, linp. rewrite !in_map_iff. intros [e [E H]]. apply filter_In in H.
    exists e. tauto.
  Qed.

  Lemma updt_same th t x : updt th t x t = x.
  Proof. unfold updt. destruct (Nat.eq_dec t t); congruence. Qed.
  Lemma updt_other th t x t' : t' <> t -> updt th t x t' = th t'.
  Proof. unfold updt. destruct (Nat.eq_dec t' t); congruence. Qed.

  Lemma inv_init s0 progs : Inv s0 (init s0 progs) [].
  Proof.
    constructor; simpl; intros; auto; try discriminate; try contradiction.
    - reflexivity.
    - constructor.
  Qed.

  (* A step that changes neither the store, the history nor the linearization, and keeps
     [t]'s counter, pending operation and "done" status. *)
  Ltac thr t' t := destruct (Nat.eq_dec t' t) as [->|?];
                   [rewrite ?updt_same in * | rewrite ?updt_other in * by assumption].

  Lemma inv_step s0 c c' lin :
    step c c' -> Inv s0 c lin -> exists lin', Inv s0 c' lin'.
  Proof.
    intros St I. destruct I as [Ist Ileg Iex Iloc Ipr Iid Ind Ires Irt].
    destruct St as [sh th h t k op rest Ht | sh th h t k op rest Ht Hacq | sh th h t k op rest Ht
                   | sh th h t k op c0 rest Ht | sh th h t k op r rest Ht | sh th h t k op r rest Ht];
      simpl in *.
    - (* invoke *)
      exists lin. constructor; simpl; auto.
      + intros t1 t2 o1 o2 Hne H1 H2.
        thr t1 t; [simpl in H1; discriminate|]. thr t2 t; [simpl in H2; discriminate|]. eauto.
      + intros t1 o1 c1 H1. thr t1 t; [simpl in H1; discriminate|]. eauto.
      + intros t1. thr t1 t.
        * specialize (Ipr t). unfold proj_inv in *. rewrite Ht in Ipr. simpl in *.
          rewrite proj_snoc_same by reflexivity. rewrite Ipr. reflexivity.
        * specialize (Ipr t1). unfold proj_inv in *.
          rewrite proj_snoc_other by (simpl; congruence). exact Ipr.
      + intros t1 k1 Hin. thr t1 t; [|eauto].
        specialize (Iid _ _ Hin). rewrite Ht in Iid. simpl in *.
        destruct Iid as [?|[_ ?]]; [auto | discriminate].
      + intros id r Hin. apply in_app_or in Hin. destruct Hin as [Hin|[Hin|[]]]; [eauto | discriminate].
      + intros a r b o Hb. apply before_snoc in Hb. destruct Hb as [Hb|[Hin E]]; [eauto|].
        inversion E; subst. right. split; [eauto|].
        intros Hin'. specialize (Iid _ _ Hin'). rewrite Ht in Iid. simpl in Iid.
        destruct Iid as [?|[_ ?]]; [lia | discriminate].
    - (* acquire *)
      exists lin. constructor; simpl; auto.
      + intros t1 t2 o1 o2 Hne H1 H2 Hl.
        thr t1 t.
        * simpl in H1. inversion H1; subst. rewrite updt_other in H2 by congruence.
          destruct (Hacq t2 o2) as [A B]; auto.
        * thr t2 t; [|eauto].
          simpl in H2. inversion H2; subst.
          destruct (Hacq t1 o1) as [A B]; auto.
      + intros t1 o1 c1 H1. thr t1 t; [simpl in H1; discriminate|]. eauto.
      + intros t1. thr t1 t; [|apply Ipr].
        specialize (Ipr t). unfold proj_inv in *. rewrite Ht in Ipr. simpl in *. exact Ipr.
      + intros t1 k1 Hin. thr t1 t; [|eauto].
        specialize (Iid _ _ Hin). rewrite Ht in Iid. simpl in *. exact Iid.
    - (* read *)
      exists lin. constructor; simpl; auto.
      + intros t1 t2 o1 o2 Hne H1 H2 Hl.
        thr t1 t.
        * simpl in H1. inversion H1; subst. rewrite updt_other in H2 by congruence.
          apply (Iex t t2 o1 o2); auto. rewrite Ht. reflexivity.
        * thr t2 t; [|eauto].
          simpl in H2. inversion H2; subst.
          apply (Iex t1 t o1 o2); auto. rewrite Ht. reflexivity.
      + intros t1 o1 c1 H1. thr t1 t; [simpl in H1; inversion H1; subst; reflexivity|]. eauto.
      + intros t1. thr t1 t; [|apply Ipr].
        specialize (Ipr t). unfold proj_inv in *. rewrite Ht in Ipr. simpl in *. exact Ipr.
      + intros t1 k1 Hin. thr t1 t; [|eauto].
        specialize (Iid _ _ Hin). rewrite Ht in Iid. simpl in *. exact Iid.
    - (* finish: the linearization point *)
      pose proof (Iloc t op c0) as Hc. rewrite Ht in Hc. specialize (Hc eq_refl). subst c0.
      set (l := lock_of op). set (e := ((t, k), op, snd (cell_step (sh l) op)) : entry).
      assert (Hfresh : ~ In (t, k) (ids lin)).
      { intros Hin. specialize (Iid _ _ Hin). rewrite Ht in Iid. simpl in Iid.
        destruct Iid as [?|[_ ?]]; [lia | discriminate]. }
      exists (lin ++ [e]). constructor; simpl.
      + intros l'. rewrite run_snoc. change (e_op e) with op. unfold gstep. simpl. fold l.
        rewrite <- (Ist l). unfold upd.
        destruct (is_read op) eqn:Hr.
        * destruct (L_eq_dec l' l) as [->|?]; [|apply Ist].
          rewrite read_pure by exact Hr. reflexivity.
        * destruct (L_eq_dec l' l) as [->|?]; [reflexivity | apply Ist].
      + apply legal_snoc. split; [exact Ileg|].
        change (e_op e) with op. change (e_ret e) with (snd (cell_step (sh l) op)).
        unfold gstep. simpl. fold l.
        rewrite <- (Ist l). reflexivity.
      + intros t1 t2 o1 o2 Hne H1 H2 Hl.
        thr t1 t.
        * simpl in H1. inversion H1; subst. rewrite updt_other in H2 by congruence.
          apply (Iex t t2 o1 o2); auto. rewrite Ht. reflexivity.
        * thr t2 t; [|eauto].
          simpl in H2. inversion H2; subst.
          apply (Iex t1 t o1 o2); auto. rewrite Ht. reflexivity.
      + intros t1 o1 c1 H1. thr t1 t; [simpl in H1; discriminate|].
        pose proof (Iloc _ _ _ H1) as E1. subst c1.
        destruct (is_read op) eqn:Hr; [reflexivity|].
        unfold upd, l. destruct (L_eq_dec (lock_of o1) (lock_of op)) as [El|]; [|reflexivity].
        exfalso. destruct (Iex t1 t o1 op) as [_ B]; auto.
        * rewrite H1. reflexivity.
        * rewrite Ht. reflexivity.
        * congruence.
      + intros t1. thr t1 t.
        * specialize (Ipr t). unfold proj_inv in *. rewrite Ht in Ipr. simpl in *.
          rewrite linp_snoc_same by reflexivity. rewrite expand_snoc. rewrite Ipr.
          split; [rewrite <- app_assoc; reflexivity | apply in_or_app; right; left; reflexivity].
        * specialize (Ipr t1). unfold proj_inv in *.
          rewrite linp_snoc_other by (simpl; congruence).
          destruct (t_st (th t1)); auto.
          all: destruct Ipr; split; auto; apply in_or_app; auto.
      + intros t1 k1 Hin. rewrite ids_snoc in Hin. apply in_app_or in Hin.
        destruct Hin as [Hin|[Hin|[]]].
        * thr t1 t; [|eauto].
          specialize (Iid _ _ Hin). rewrite Ht in Iid. simpl in *.
          destruct Iid as [?|[_ ?]]; [auto | discriminate].
        * inversion Hin; subst. rewrite updt_same. simpl. auto.
      + rewrite ids_snoc. apply NoDup_snoc; auto.
      + intros id r Hin. rewrite ids_snoc. apply in_or_app. eauto.
      + intros a r b o Hb. rewrite ids_snoc. destruct (Irt _ _ _ _ Hb) as [Hbb|[Ha Hnb]].
        * left. apply before_app_l. exact Hbb.
        * destruct (Nat.eq_dec (fst b) t) as [E1|N1]; [destruct (Nat.eq_dec (snd b) k) as [E2|N2]|].
          -- left. apply before_snoc. right. split; auto. destruct b; simpl in *; subst; reflexivity.
          -- right. split; [apply in_or_app; auto|]. intros Hin. apply in_app_or in Hin.
             destruct Hin as [?|[E|[]]]; [auto|]. subst b. simpl in *. auto.
          -- right. split; [apply in_or_app; auto|]. intros Hin. apply in_app_or in Hin.
             destruct Hin as [?|[E|[]]]; [auto|]. subst b. simpl in *. auto.
    - (* unlock *)
      exists lin. constructor; simpl; auto.
      + intros t1 t2 o1 o2 Hne H1 H2.
        thr t1 t; [simpl in H1; discriminate|]. thr t2 t; [simpl in H2; discriminate|]. eauto.
      + intros t1 o1 c1 H1. thr t1 t; [simpl in H1; discriminate|]. eauto.
      + intros t1. thr t1 t; [|apply Ipr].
        specialize (Ipr t). unfold proj_inv in *. rewrite Ht in Ipr. simpl in *. exact Ipr.
      + intros t1 k1 Hin. thr t1 t; [|eauto].
        specialize (Iid _ _ Hin). rewrite Ht in Iid. simpl in *. exact Iid.
    - (* respond *)
      exists lin. constructor; simpl; auto.
      + intros t1 t2 o1 o2 Hne H1 H2.
        thr t1 t; [simpl in H1; discriminate|]. thr t2 t; [simpl in H2; discriminate|]. eauto.
      + intros t1 o1 c1 H1. thr t1 t; [simpl in H1; discriminate|]. eauto.
      + intros t1. thr t1 t.
        * specialize (Ipr t). unfold proj_inv in *. rewrite Ht in Ipr. simpl in *.
          rewrite proj_snoc_same by reflexivity. apply Ipr.
        * specialize (Ipr t1). unfold proj_inv in *.
          rewrite proj_snoc_other by (simpl; congruence). exact Ipr.
      + intros t1 k1 Hin. thr t1 t; [|eauto].
        specialize (Iid _ _ Hin). rewrite Ht in Iid. simpl in *.
        destruct Iid as [?|[? _]]; [left; lia | left; lia].
      + intros id r0 Hin. apply in_app_or in Hin. destruct Hin as [Hin|[Hin|[]]]; [eauto|].
        inversion Hin; subst. specialize (Ipr t). unfold proj_inv in Ipr. rewrite Ht in Ipr.
        simpl in Ipr. destruct Ipr as [_ Hin']. unfold ids.
        change (t, k) with (e_id ((t, k), op, r0)). apply in_map. exact Hin'.
      + intros a r0 b o Hb. apply before_snoc in Hb. destruct Hb as [Hb|[_ E]]; [eauto | discriminate].
  Qed.

  Lemma reach_inv s0 progs c : reach s0 progs c -> exists lin, Inv s0 c lin.
  Proof.
    induction 1 as [|c1 c2 St _ IH].
    - exists []. apply inv_init.
    - destruct IH as [lin I]. eapply inv_step; eauto.
  Qed.

  (* Every history of a quiescent configuration (no operation in flight) is linearizable. *)
  Theorem atomic_ops_linearizable s0 progs c :
    reach s0 progs c -> quiescent c -> linearizable s0 (c_hist c).
  Proof.
    intros R Q. destruct (reach_inv R) as [lin I]. exists lin.
    destruct I as [Ist Ileg Iex Iloc Ipr Iid Ind Ires Irt].
    repeat split; auto.
    - intros t. rewrite proj_expand. specialize (Ipr t). unfold proj_inv in Ipr.
      rewrite (Q t) in Ipr. exact Ipr.
    - intros a r b op Hb. destruct (Irt _ _ _ _ Hb) as [?|[_ Hn]]; [assumption|].
      exfalso. apply Hn.
      (* b was invoked, the configuration is quiescent, so b has responded and is in lin *)
      destruct (before_in _ _ _ Hb) as [_ Hin].
      assert (Hp : In (EInv b op) (proj (fst b) (c_hist c))).
      { unfold proj. apply filter_In. split; auto. simpl. apply Nat.eqb_refl. }
      pose proof (Ipr (fst b)) as P. unfold proj_inv in P. rewrite (Q (fst b)) in P.
      rewrite P in Hp. apply expand_inv_in in Hp. apply (ids_linp_incl _ _ _ Hp).
  Qed.

  (* At EVERY reachable configuration (operations may be in flight, locks held) the shared
     memory is exactly the state the sequential specification reaches on the operations
     linearized so far, and that sequential history is legal. *)
  Theorem atomic_state_is_sequential s0 progs c :
    reach s0 progs c ->
    exists lin : list entry,
      (forall l, c_sh c l = run s0 lin l) /\ legal s0 lin /\ NoDup (ids lin) /\
      (forall id r, In (ERes id r) (c_hist c) -> In id (ids lin)).
  Proof.
    intros R. destruct (reach_inv R) as [lin I]. exists lin.
    destruct I as [Ist Ileg Iex Iloc Ipr Iid Ind Ires Irt]. auto.
  Qed.

  (* equal per-thread projections: the two histories contain the same events *)
  Lemma proj_same_events h h' :
    (forall t, proj t h = proj t h') -> forall ev, In ev h <-> In ev h'.
  Proof.
    intros H ev. split; intros Hin.
    - assert (Hp : In ev (proj (ev_tid ev) h)) by (apply filter_In; split; auto; apply Nat.eqb_refl).
      rewrite H in Hp. apply filter_In in Hp. tauto.
    - assert (Hp : In ev (proj (ev_tid ev) h')) by (apply filter_In; split; auto; apply Nat.eqb_refl).
      rewrite <- H in Hp. apply filter_In in Hp. tauto.
  Qed.
  Lemma in_expand_res lin id r :
    In (ERes id r) (expand lin) <-> exists op, In ((id, op, r) : entry) lin.
  Proof.
    induction lin as [|e t IH]; simpl.
    - split; [tauto | intros [? []]].
    - rewrite IH. split.
      + intros [E|[E|[op H]]]; [discriminate | inversion E; subst | eauto].
        exists (e_op e). left. destruct e as [[? ?] ?]; reflexivity.
      + intros [op [E|H]]; [subst; simpl; auto | eauto].
  Qed.
End Atomic.

Arguments EInv {Op Ret} id op.
Arguments ERes {Op Ret} id r.
Arguments TIdle {Cell Op Ret}.
Arguments TInvoked {Cell Op Ret} op.
Arguments TLocked {Cell Op Ret} op.
Arguments TRead {Cell Op Ret} op c.
Arguments TDone {Cell Op Ret} op r.
Arguments TUnlocked {Cell Op Ret} op r.
Arguments init {L Cell Op Ret} s0 progs.
