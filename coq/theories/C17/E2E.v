(* C17/E2E.v — the two components around one registry and one event bus (Model.e2e_step).
   Variant Repaired (all three recorded repairs): after every operation every tuple has at most ONE
   live session over both components, it is the registry owner, and the session created by the last
   operation is that session.  Refutations for the variants that lack a repair are at the end. *)
From OV Require Import Common.Base C17.Model C17.Proofs.
From Coq Require Import ZifyBool ZifyNat ZifyN.

Lemma sid_disjoint n m : bytes_eqb (ipoe_sid n) (pppoe_sid m) = false /\ bytes_eqb (pppoe_sid m) (ipoe_sid n) = false.
Proof. split; reflexivity. Qed.
Lemma proto_disjoint : bytes_eqb proto_pppoe proto_ipoe = false /\ bytes_eqb proto_ipoe proto_pppoe = false.
Proof. split; reflexivity. Qed.

Lemma in_count_pp k sid l : In (k, sid) l -> count_pp k l <> 0%nat.
Proof.
  unfold count_pp. induction l as [|[k' s] r IH]; simpl; [tauto|].
  intros [H|H].
  - inversion H; subst. rewrite key_eqb_refl. simpl. discriminate.
  - destruct (key_eqb k' k); simpl; auto.
Qed.
Lemma count_pp_zero k l : (forall s, ~ In (k, s) l) -> count_pp k l = 0%nat.
Proof.
  unfold count_pp. induction l as [|[k' s] r IH]; simpl; intros H; [reflexivity|].
  destruct (key_eqb k' k) eqn:E.
  - apply key_eqb_eq in E. subst. exfalso. apply (H s). auto.
  - apply IH. intros s' Hin. apply (H s'). auto.
Qed.
Lemma in_remove_pp k sid k' s' l :
  In (k', s') (remove_pp k sid l) <-> In (k', s') l /\ ~ (k' = k /\ s' = sid).
Proof.
  induction l as [|[k2 s2] r IH]; simpl; [tauto|].
  destruct (key_eqb k2 k && bytes_eqb s2 sid) eqn:E.
  - apply andb_true_iff in E. destruct E as [E1 E2]. apply key_eqb_eq in E1. apply bytes_eqb_eq in E2. subst.
    rewrite IH. split; [tauto|]. intros [[H|H] Hn]; [inversion H; subst; tauto | tauto].
  - simpl. rewrite IH. split.
    + intros [H|H]; [|tauto]. inversion H; subst. split; [auto|]. intros [-> ->].
      rewrite key_eqb_refl, bytes_eqb_refl in E. discriminate.
    + tauto.
Qed.
Lemma find_sid_none sid m : (forall k s, In (k, s) m -> bytes_eqb (o_sid s) sid = false) -> find_sid sid m = None.
Proof.
  induction m as [|[k s] r IH]; simpl; intros H; [reflexivity|].
  rewrite (H k s) by auto. apply IH. intros k' s' Hin. apply (H k' s'). auto.
Qed.
Lemma find_pp_none sid l : (forall k s, In (k, s) l -> bytes_eqb s sid = false) -> find_pp sid l = None.
Proof.
  induction l as [|[k s] r IH]; simpl; intros H; [reflexivity|].
  rewrite (H k s) by auto. apply IH. intros k' s' Hin. apply (H k' s'). auto.
Qed.

Definition ipo (sid : bytes) (k : key) : owner := mkOwner proto_ipoe sid k.
Definition ppo (sid : bytes) (k : key) : owner := mkOwner proto_pppoe sid k.


Lemma find_pp_some k sid l : In (k, sid) l -> exists k', find_pp sid l = Some (k', sid) /\ In (k', sid) l.
Proof.
  induction l as [|[k2 s2] r IH]; simpl; [tauto|]. intros [H|H].
  - inversion H; subst. rewrite bytes_eqb_refl. eauto.
  - destruct (bytes_eqb s2 sid) eqn:E.
    + apply bytes_eqb_eq in E. subst. eauto.
    + destruct (IH H) as [k' [A B]]. eauto.
Qed.
Lemma pppoe_sid_neq n m : n <> m -> bytes_eqb (pppoe_sid n) (pppoe_sid m) = false.
Proof.
  intros H. unfold pppoe_sid. simpl. destruct (N.eqb_spec n m); [contradiction | reflexivity].
Qed.

Lemma nodup_remove_pp k sid l : NoDup l -> NoDup (remove_pp k sid l).
Proof.
  induction l as [|[k2 s2] r IH]; simpl; intros H; [constructor|].
  apply NoDup_cons_iff in H. destruct H as [Hn Hd].
  destruct (key_eqb k2 k && bytes_eqb s2 sid); [auto|].
  constructor; [|auto]. intros Hin. apply in_remove_pp in Hin. tauto.
Qed.
Lemma count_pp_one k s0 l : NoDup l -> In (k, s0) l -> (forall s, In (k, s) l -> s = s0) -> count_pp k l = 1%nat.
Proof.
  unfold count_pp. induction l as [|[k2 s2] r IH]; simpl; intros Hn Hin Hall; [tauto|].
  apply NoDup_cons_iff in Hn. destruct Hn as [Hnot Hd].
  destruct (key_eqb k2 k) eqn:Ek.
  - apply key_eqb_eq in Ek. subst k2. assert (s2 = s0) by (apply Hall; auto). subst s2. simpl. f_equal.
    apply (count_pp_zero k r). intros s Hs. assert (s = s0) by (apply Hall; auto). subst. contradiction.
  - destruct Hin as [H|H]; [inversion H; subst; rewrite key_eqb_refl in Ek; discriminate|].
    apply IH; auto.
Qed.

Record Inv (w : world) : Prop := {
  v_ok : reg_ok (w_reg w);
  v_ipoe_sids : forall k s, In (k, s) (w_ipoe w) -> exists n, o_sid s = ipoe_sid n;
  v_ipoe : forall k s, m_get k (w_ipoe w) = Some s ->
      s = ipo (o_sid s) k /\ reg_get (w_reg w) k = Some s;
  v_pp_sids : forall k sid, In (k, sid) (w_pp_all w) -> exists n, sid = pppoe_sid n /\ (n < w_next w)%N;
  v_pp_uniq : forall k1 k2 sid, In (k1, sid) (w_pp_all w) -> In (k2, sid) (w_pp_all w) -> k1 = k2;
  v_pp : forall k sid, In (k, sid) (w_pp_all w) ->
      reg_get (w_reg w) k = Some (ppo sid k) /\ m_get k (w_pp_key w) = Some (ppo sid k);
  v_owner : forall k o, reg_get (w_reg w) k = Some o ->
      m_get k (w_ipoe w) = Some o \/ In (k, o_sid o) (w_pp_all w);
  v_nodup : NoDup (w_pp_all w)
}.

Lemma inv0 : Inv world0.
Proof.
  constructor; simpl; try tauto; try discriminate.
  - apply new_registry_ok.
  - intros k o H. rewrite reg_get_new in H. discriminate.
  - constructor.
Qed.

(* registry-level facts in the vocabulary of this file *)
Lemma cclaim_get self r k sid k' : reg_ok r ->
  reg_get (fst (component_claim self r k sid)) k' =
  if key_eqb k' k then Some (mkOwner self sid k) else reg_get r k'.
Proof. intros H. rewrite component_claim_state. rewrite reg_step_get by exact H. reflexivity. Qed.
Lemma cclaim_ok self r k sid : reg_ok r -> reg_ok (fst (component_claim self r k sid)).
Proof. intros H. rewrite component_claim_state. apply reg_step_ok. exact H. Qed.
Lemma cany_get self r k sid k' : reg_ok r ->
  reg_get (fst (component_claim_any self r k sid)) k' =
  if key_eqb k' k then Some (mkOwner self sid k) else reg_get r k'.
Proof. intros H. rewrite component_claim_any_state. rewrite reg_step_get by exact H. reflexivity. Qed.
Lemma cany_ok self r k sid : reg_ok r -> reg_ok (fst (component_claim_any self r k sid)).
Proof. intros H. rewrite component_claim_any_state. apply reg_step_ok. exact H. Qed.
Lemma crelease_stale self r k sid k' : reg_ok r ->
  (forall cur, reg_get r k = Some cur -> same_id cur (mkOwner self sid k) = false) ->
  reg_get (component_release self r k sid) k' = reg_get r k'.
Proof.
  intros H Hn. unfold component_release. fold (release r k (mkOwner self sid k)).
  rewrite release_get by exact H. rewrite is_owner_get.
  destruct (reg_get r k) as [cur|] eqn:E; [rewrite (Hn cur eq_refl)|]; rewrite andb_false_r; reflexivity.
Qed.
Lemma crelease_ok self r k sid : reg_ok r -> reg_ok (component_release self r k sid).
Proof. intros H. unfold component_release. apply reg_step_ok. exact H. Qed.

(* the two terminate handlers, Repaired variant *)
Lemma ipoe_terminate_miss w sid k :
  (forall k2 s2, In (k2, s2) (w_ipoe w) -> bytes_eqb (o_sid s2) sid = false) ->
  ipoe_terminate Repaired w (sid, k) = w.
Proof.
  intros H. unfold ipoe_terminate.
  assert (key_hit Repaired sid (m_get k (w_ipoe w)) = None) as ->.
  { destruct (m_get k (w_ipoe w)) as [s|] eqn:E; [|reflexivity]. simpl.
    rewrite (H k s) by (apply m_get_some_in; exact E). reflexivity. }
  rewrite find_sid_none by exact H. reflexivity.
Qed.
Lemma ipoe_terminate_hit w sid k s :
  m_get k (w_ipoe w) = Some s -> o_sid s = sid ->
  ipoe_terminate Repaired w (sid, k) =
  mkW (component_release proto_ipoe (w_reg w) (o_key s) (o_sid s)) (m_del (o_key s) (w_ipoe w))
      (w_pp_key w) (w_pp_all w) (w_next w).
Proof.
  intros H E. subst sid. unfold ipoe_terminate. rewrite H. simpl. rewrite bytes_eqb_refl. reflexivity.
Qed.
Lemma pppoe_terminate_miss w sid k :
  (forall s, m_get k (w_pp_key w) = Some s -> bytes_eqb (o_sid s) sid = false) ->
  (forall k2 s2, In (k2, s2) (w_pp_all w) -> bytes_eqb s2 sid = false) ->
  pppoe_terminate Repaired w (sid, k) = w.
Proof.
  intros H1 H2. unfold pppoe_terminate.
  assert (key_hit Repaired sid (m_get k (w_pp_key w)) = None) as ->.
  { destruct (m_get k (w_pp_key w)) as [s|] eqn:E; [|reflexivity]. simpl. rewrite (H1 s eq_refl). reflexivity. }
  rewrite find_pp_none by exact H2. reflexivity.
Qed.
Lemma pppoe_terminate_hit w sid k s :
  m_get k (w_pp_key w) = Some s -> o_sid s = sid -> o_key s = k ->
  pppoe_terminate Repaired w (sid, k) =
  mkW (component_release proto_pppoe (w_reg w) (o_key s) (o_sid s)) (w_ipoe w)
      (m_del (o_key s) (w_pp_key w)) (remove_pp (o_key s) (o_sid s) (w_pp_all w)) (w_next w).
Proof.
  intros H E Ek. subst sid. unfold pppoe_terminate. rewrite H. simpl. rewrite bytes_eqb_refl.
  rewrite Ek, H, bytes_eqb_refl. reflexivity.
Qed.
(* the event names an older session of the tuple: found through the id index, the tuple index keeps
   pointing to the newer one *)
Lemma pppoe_terminate_older w sid k cur :
  m_get k (w_pp_key w) = Some cur -> bytes_eqb (o_sid cur) sid = false ->
  find_pp sid (w_pp_all w) = Some (k, sid) ->
  pppoe_terminate Repaired w (sid, k) =
  mkW (component_release proto_pppoe (w_reg w) k sid) (w_ipoe w) (w_pp_key w)
      (remove_pp k sid (w_pp_all w)) (w_next w).
Proof.
  intros H E F. unfold pppoe_terminate. rewrite H. simpl. rewrite E, F, H, E. reflexivity.
Qed.

(* an ipoe creation path whose session claims (all three paths in the Repaired variant) *)
Lemma step_create w k : Inv w ->
  let w' := ipoe_create Repaired true w k in
  Inv w' /\ e2e_snapshot w' k = (1%nat, 0%nat, Some proto_ipoe).
Proof.
  intros I. destruct I as [Hok Hsids Hip Hps Hpu Hpp Hown Hnd]. unfold ipoe_create.
  destruct (m_get k (w_ipoe w)) as [s|] eqn:Eg.
  - split; [constructor; auto|]. unfold e2e_snapshot. rewrite Eg.
    destruct (Hip k s Eg) as [Es Er]. rewrite Er.
    assert (count_pp k (w_pp_all w) = 0%nat) as ->.
    { apply count_pp_zero. intros sid Hin. destruct (Hpp _ _ Hin) as [Hr _]. rewrite Er in Hr.
      inversion Hr as [E]. rewrite Es in E. unfold ipo, ppo in E. inversion E. }
    rewrite Es. reflexivity.
  - cbn [w_reg w_ipoe w_pp_key w_pp_all w_next].
    set (n := w_next w). set (X := ipo (ipoe_sid n) k).
    pose proof (component_claim_events proto_ipoe (w_reg w) k (ipoe_sid n)) as Hev.
    pose proof (fun k' => cclaim_get proto_ipoe (w_reg w) k (ipoe_sid n) k' Hok) as Hget.
    pose proof (cclaim_ok proto_ipoe (w_reg w) k (ipoe_sid n) Hok) as Hok'.
    destruct (component_claim proto_ipoe (w_reg w) k (ipoe_sid n)) as [r' evs]. cbn [fst snd] in *.
    rewrite lookup_get in Hev.
    assert (Hps' : forall k2 sid, In (k2, sid) (w_pp_all w) -> exists m, sid = pppoe_sid m /\ (m < N.succ n)%N).
    { intros k2 sid Hin. destruct (Hps _ _ Hin) as [m [E L]]. exists m. split; [exact E | unfold n; lia]. }
    destruct (reg_get (w_reg w) k) as [prev|] eqn:Eprev.
    + destruct (Hown k prev Eprev) as [Hc|Hc]; [congruence|].
      destruct (Hps _ _ Hc) as [m [Em _]]. destruct (Hpp _ _ Hc) as [Hr Hk]. rewrite Em in Hr, Hk. rewrite Eprev in Hr.
      inversion Hr as [Eprev']. clear Hr Hc Em. subst prev.
      cbn [o_proto o_sid ppo] in *. replace (bytes_eqb proto_pppoe proto_ipoe) with false in Hev by reflexivity.
      subst evs. cbn [deliver fold_left].
      rewrite ipoe_terminate_miss.
      2:{ cbn [w_ipoe]. intros k2 s2 Hin. apply in_m_set in Hin. destruct Hin as [[_ ->]|[Hin _]]; [reflexivity|].
          destruct (Hsids _ _ Hin) as [n2 ->]. reflexivity. }
      rewrite (pppoe_terminate_hit _ (pppoe_sid m) k (ppo (pppoe_sid m) k)) by (cbn [w_pp_key]; auto).
      cbn [w_pp_key w_pp_all w_reg w_ipoe w_next o_key o_sid ppo].
      assert (Hst : forall k', reg_get (component_release proto_pppoe r' k (pppoe_sid m)) k' = reg_get r' k').
      { intros k'. apply crelease_stale; [exact Hok'|]. intros cur Hc'. rewrite Hget, key_eqb_refl in Hc'.
        inversion Hc'. reflexivity. }
      split.
      * constructor; cbn [w_reg w_ipoe w_pp_key w_pp_all w_next].
        -- apply crelease_ok. exact Hok'.
        -- intros k2 s2 Hin. apply in_m_set in Hin. destruct Hin as [[_ ->]|[Hin _]]; [exists n; reflexivity | eauto].
        -- intros k2 s2 Hg. rewrite Hst, Hget.
           destruct (key_eqb k2 k) eqn:Ek.
           ++ apply key_eqb_eq in Ek. subst k2. rewrite m_get_set_same in Hg. inversion Hg. subst s2. split; reflexivity.
           ++ rewrite m_get_set_other in Hg by (apply key_eqb_neq; exact Ek). apply Hip. exact Hg.
        -- intros k2 s2 Hin. apply in_remove_pp in Hin. destruct Hin as [Hin _]. eauto.
        -- intros k1 k2 s2 H1 H2. apply in_remove_pp in H1. apply in_remove_pp in H2. destruct H1, H2. eauto.
        -- intros k2 s2 Hin. apply in_remove_pp in Hin. destruct Hin as [Hin Hne].
           destruct (Hpp _ _ Hin) as [Hr2 Hk2].
           destruct (key_eqb k2 k) eqn:Ek.
           ++ apply key_eqb_eq in Ek. subst k2. rewrite Eprev in Hr2. inversion Hr2. exfalso. apply Hne. auto.
           ++ rewrite Hst, Hget, Ek. split; [exact Hr2|].
              rewrite m_get_del_other by (apply key_eqb_neq; exact Ek). exact Hk2.
        -- intros k2 o2. rewrite Hst, Hget. destruct (key_eqb k2 k) eqn:Ek.
           ++ apply key_eqb_eq in Ek. subst k2. intros H; inversion H; subst. left. apply m_get_set_same.
           ++ intros H. destruct (Hown _ _ H) as [Hl|Hr2].
              ** left. rewrite m_get_set_other by (apply key_eqb_neq; exact Ek). exact Hl.
              ** right. apply in_remove_pp. split; [exact Hr2|]. intros [-> _]. rewrite key_eqb_refl in Ek. discriminate.
        -- apply nodup_remove_pp. exact Hnd.
      * unfold e2e_snapshot. cbn [w_reg w_ipoe w_pp_all]. rewrite m_get_set_same, Hst, Hget, key_eqb_refl.
        rewrite count_pp_zero; [reflexivity|].
        intros s2 Hin. apply in_remove_pp in Hin. destruct Hin as [Hin Hne].
        destruct (Hpp _ _ Hin) as [Hr2 _]. rewrite Eprev in Hr2. inversion Hr2. apply Hne. auto.
    + subst evs. cbn [deliver fold_left]. split.
      * constructor; cbn [w_reg w_ipoe w_pp_key w_pp_all w_next].
        -- exact Hok'.
        -- intros k2 s2 Hin. apply in_m_set in Hin. destruct Hin as [[_ ->]|[Hin _]]; [exists n; reflexivity | eauto].
        -- intros k2 s2 Hg. rewrite Hget. destruct (key_eqb k2 k) eqn:Ek.
           ++ apply key_eqb_eq in Ek. subst k2. rewrite m_get_set_same in Hg. inversion Hg. split; reflexivity.
           ++ rewrite m_get_set_other in Hg by (apply key_eqb_neq; exact Ek). apply Hip. exact Hg.
        -- exact Hps'.
        -- exact Hpu.
        -- intros k2 s2 Hin. destruct (Hpp _ _ Hin) as [Hr2 Hk2]. rewrite Hget.
           destruct (key_eqb k2 k) eqn:Ek; [apply key_eqb_eq in Ek; subst; congruence | auto].
        -- intros k2 o2. rewrite Hget. destruct (key_eqb k2 k) eqn:Ek.
           ++ apply key_eqb_eq in Ek. subst k2. intros H; inversion H; subst. left. apply m_get_set_same.
           ++ intros H. destruct (Hown _ _ H) as [Hl|Hr2]; [left|right; exact Hr2].
              rewrite m_get_set_other by (apply key_eqb_neq; exact Ek). exact Hl.
        -- exact Hnd.
      * unfold e2e_snapshot. cbn [w_reg w_ipoe w_pp_all]. rewrite m_get_set_same, Hget, key_eqb_refl.
        rewrite count_pp_zero; [reflexivity|].
        intros s2 Hin. destruct (Hpp _ _ Hin) as [Hr2 _]. congruence.
Qed.

Lemma step_padr w k : Inv w ->
  let w' := e2e_step Repaired w (EPadr k) in
  Inv w' /\ e2e_snapshot w' k = (0%nat, 1%nat, Some proto_pppoe).
Proof.
  intros I. destruct I as [Hok Hsids Hip Hps Hpu Hpp Hown Hnd]. cbn [e2e_step v_evict_pp Repaired site_claim].
  set (n := w_next w). set (P := ppo (pppoe_sid n) k).
  pose proof (component_claim_any_events proto_pppoe (w_reg w) k (pppoe_sid n)) as Hev.
  pose proof (fun k' => cany_get proto_pppoe (w_reg w) k (pppoe_sid n) k' Hok) as Hget.
  pose proof (cany_ok proto_pppoe (w_reg w) k (pppoe_sid n) Hok) as Hok'.
  destruct (component_claim_any proto_pppoe (w_reg w) k (pppoe_sid n)) as [r' evs]. cbn [fst snd] in *.
  rewrite lookup_get in Hev.
  assert (Hps' : forall k2 sid, In (k2, sid) ((k, pppoe_sid n) :: w_pp_all w) ->
                 exists m, sid = pppoe_sid m /\ (m < N.succ n)%N).
  { intros k2 sid [Hin|Hin]; [inversion Hin; exists n; split; [reflexivity | lia]|].
    destruct (Hps _ _ Hin) as [m [E L]]. exists m. split; [exact E | unfold n; lia]. }
  assert (Hfresh : forall k2 sid, In (k2, sid) (w_pp_all w) -> bytes_eqb sid (pppoe_sid n) = false).
  { intros k2 sid Hin. destruct (Hps _ _ Hin) as [m [-> L]]. apply pppoe_sid_neq. unfold n. lia. }
  assert (Hpu' : forall k1 k2 sid, In (k1, sid) ((k, pppoe_sid n) :: w_pp_all w) ->
                 In (k2, sid) ((k, pppoe_sid n) :: w_pp_all w) -> k1 = k2).
  { intros k1 k2 sid [H1|H1] [H2|H2].
    - inversion H1; inversion H2; congruence.
    - inversion H1; subst. pose proof (Hfresh _ _ H2) as F. rewrite bytes_eqb_refl in F. discriminate.
    - inversion H2; subst. pose proof (Hfresh _ _ H1) as F. rewrite bytes_eqb_refl in F. discriminate.
    - eauto. }
  destruct (reg_get (w_reg w) k) as [prev|] eqn:Eprev.
  - destruct (Hown k prev Eprev) as [Hc|Hc].
    + (* owned by an ipoe session: it is evicted, the new pppoe session stays *)
      assert (Hnone : forall s, ~ In (k, s) (w_pp_all w)).
      { intros s Hin. destruct (Hpp _ _ Hin) as [Hr _]. rewrite Eprev in Hr. destruct (Hip _ _ Hc) as [Es _].
        inversion Hr as [E]. rewrite E in Es. unfold ipo, ppo in Es. inversion Es. }
      assert (Hcnt : count_pp k ((k, pppoe_sid n) :: w_pp_all w) = 1%nat).
      { unfold count_pp. simpl. rewrite key_eqb_refl. simpl. f_equal. apply (count_pp_zero k _ Hnone). }
      destruct (Hip _ _ Hc) as [Es _].
      destruct (Hsids k prev (m_get_some_in _ _ _ Hc)) as [m Em]. rewrite Em in Es.
      subst prev. unfold same_id in Hev. cbn [o_proto o_sid ipo] in *.
      replace (bytes_eqb proto_ipoe proto_pppoe) with false in Hev by reflexivity. cbn [andb] in Hev. subst evs. clear Em.
      cbn [deliver fold_left].
      rewrite (ipoe_terminate_hit _ (ipoe_sid m) k (ipo (ipoe_sid m) k)) by (cbn [w_ipoe]; auto).
      cbn [w_pp_key w_pp_all w_reg w_ipoe w_next o_key o_sid ipo].
      rewrite pppoe_terminate_miss.
      2:{ cbn [w_pp_key]. intros s Hs. rewrite m_get_set_same in Hs. inversion Hs. reflexivity. }
      2:{ cbn [w_pp_all]. intros k2 s2 [Hin|Hin]; [inversion Hin; reflexivity|].
          destruct (Hps _ _ Hin) as [n2 [-> _]]. reflexivity. }
      assert (Hst : forall k', reg_get (component_release proto_ipoe r' k (ipoe_sid m)) k' = reg_get r' k').
      { intros k'. apply crelease_stale; [exact Hok'|]. intros cur Hc'. rewrite Hget, key_eqb_refl in Hc'.
        inversion Hc'. reflexivity. }
      split.
      * constructor; cbn [w_reg w_ipoe w_pp_key w_pp_all w_next].
        -- apply crelease_ok. exact Hok'.
        -- intros k2 s2 Hin. apply in_m_del in Hin. destruct Hin as [Hin _]. eauto.
        -- intros k2 s2 Hg. rewrite Hst, Hget. destruct (key_eqb k2 k) eqn:Ek.
           ++ apply key_eqb_eq in Ek. subst k2. rewrite m_get_del_same in Hg. discriminate.
           ++ rewrite m_get_del_other in Hg by (apply key_eqb_neq; exact Ek). apply Hip. exact Hg.
        -- exact Hps'.
        -- exact Hpu'.
        -- intros k2 s2 [Hin|Hin].
           ++ inversion Hin; subst. rewrite Hst, Hget, key_eqb_refl. split; [reflexivity | apply m_get_set_same].
           ++ destruct (Hpp _ _ Hin) as [Hr2 Hk2]. destruct (key_eqb k2 k) eqn:Ek.
              ** apply key_eqb_eq in Ek. subst k2. exfalso. eapply Hnone; eauto.
              ** rewrite Hst, Hget, Ek. split; [exact Hr2|].
                 rewrite m_get_set_other by (apply key_eqb_neq; exact Ek). exact Hk2.
        -- intros k2 o2. rewrite Hst, Hget. destruct (key_eqb k2 k) eqn:Ek.
           ++ apply key_eqb_eq in Ek. subst k2. intros H; inversion H; subst. right. left. reflexivity.
           ++ intros H. destruct (Hown _ _ H) as [Hl|Hr2]; [left|right; right; exact Hr2].
              rewrite m_get_del_other by (apply key_eqb_neq; exact Ek). exact Hl.
        -- constructor; [intros Hin; pose proof (Hfresh _ _ Hin) as F; rewrite bytes_eqb_refl in F; discriminate | exact Hnd].
      * unfold e2e_snapshot. cbn [w_reg w_ipoe w_pp_all]. rewrite m_get_del_same, Hst, Hget, key_eqb_refl, Hcnt. reflexivity.
    + (* owned by an older pppoe session of the tuple (replayed PADR): it is evicted as well *)
      destruct (Hps _ _ Hc) as [m [Em Lm]]. destruct (Hpp _ _ Hc) as [Hr Hk].
      rewrite Eprev in Hr. inversion Hr as [Eprev']. rewrite Em in Eprev', Hk, Hc. clear Hr Em. subst prev.
      assert (Hnm : bytes_eqb (pppoe_sid m) (pppoe_sid n) = false) by (apply pppoe_sid_neq; unfold n; lia).
      unfold same_id in Hev. cbn [o_proto o_sid ppo] in *. rewrite Hnm, andb_false_r in Hev. subst evs.
      assert (Hno : m_get k (w_ipoe w) = None).
      { destruct (m_get k (w_ipoe w)) as [s|] eqn:E; [|reflexivity]. destruct (Hip _ _ E) as [Es Hr].
        rewrite Eprev in Hr. inversion Hr as [E2]. rewrite <- E2 in Es. unfold ipo, ppo in Es. inversion Es. }
      assert (Honly : forall s, In (k, s) (w_pp_all w) -> s = pppoe_sid m).
      { intros s Hin. destruct (Hpp _ _ Hin) as [Hr _]. rewrite Eprev in Hr. inversion Hr. reflexivity. }
      cbn [deliver fold_left].
      rewrite ipoe_terminate_miss.
      2:{ cbn [w_ipoe]. intros k2 s2 Hin. destruct (Hsids _ _ Hin) as [n2 ->]. reflexivity. }
      destruct (find_pp_some k (pppoe_sid m) (w_pp_all w) Hc) as [k' [Hf Hin']].
      assert (k' = k) by (eapply Hpu; eauto). subst k'.
      rewrite (pppoe_terminate_older _ (pppoe_sid m) k P).
      2:{ cbn [w_pp_key]. apply m_get_set_same. }
      2:{ unfold P. cbn [o_sid ppo]. rewrite bytes_eqb_sym. exact Hnm. }
      2:{ cbn [w_pp_all find_pp]. rewrite bytes_eqb_sym, Hnm. exact Hf. }
      cbn [w_pp_key w_pp_all w_reg w_ipoe w_next remove_pp].
      rewrite key_eqb_refl, (bytes_eqb_sym (pppoe_sid n)), Hnm. cbn [andb].
      assert (Hst : forall k', reg_get (component_release proto_pppoe r' k (pppoe_sid m)) k' = reg_get r' k').
      { intros k'. apply crelease_stale; [exact Hok'|]. intros cur Hc'. rewrite Hget, key_eqb_refl in Hc'.
        inversion Hc'. unfold same_id. cbn [o_sid]. rewrite (bytes_eqb_sym (pppoe_sid n)), Hnm, andb_false_r. reflexivity. }
      assert (Hrest : forall s, ~ In (k, s) (remove_pp k (pppoe_sid m) (w_pp_all w))).
      { intros s Hin. apply in_remove_pp in Hin. destruct Hin as [Hin Hne]. apply Hne. split; [reflexivity | apply Honly; exact Hin]. }
      split.
      * constructor; cbn [w_reg w_ipoe w_pp_key w_pp_all w_next].
        -- apply crelease_ok. exact Hok'.
        -- exact Hsids.
        -- intros k2 s2 Hg. rewrite Hst, Hget. destruct (key_eqb k2 k) eqn:Ek.
           ++ apply key_eqb_eq in Ek. subst k2. congruence.
           ++ apply Hip. exact Hg.
        -- intros k2 s2 [Hin|Hin]; [apply (Hps' k2); left; exact Hin|].
           apply in_remove_pp in Hin. destruct Hin as [Hin _]. apply (Hps' k2). right. exact Hin.
        -- intros k1 k2 s2 H1 H2. apply (Hpu' k1 k2 s2).
           ++ destruct H1 as [H1|H1]; [left; exact H1 | right; apply in_remove_pp in H1; tauto].
           ++ destruct H2 as [H2|H2]; [left; exact H2 | right; apply in_remove_pp in H2; tauto].
        -- intros k2 s2 [Hin|Hin].
           ++ inversion Hin; subst. rewrite Hst, Hget, key_eqb_refl. split; [reflexivity | apply m_get_set_same].
           ++ destruct (key_eqb k2 k) eqn:Ek.
              ** apply key_eqb_eq in Ek. subst k2. exfalso. eapply Hrest; eauto.
              ** apply in_remove_pp in Hin. destruct Hin as [Hin _]. destruct (Hpp _ _ Hin) as [Hr2 Hk2].
                 rewrite Hst, Hget, Ek. split; [exact Hr2|].
                 rewrite m_get_set_other by (apply key_eqb_neq; exact Ek). exact Hk2.
        -- intros k2 o2. rewrite Hst, Hget. destruct (key_eqb k2 k) eqn:Ek.
           ++ apply key_eqb_eq in Ek. subst k2. intros H; inversion H; subst. right. left. reflexivity.
           ++ intros H. destruct (Hown _ _ H) as [Hl|Hr2]; [left; exact Hl|]. right. right.
              apply in_remove_pp. split; [exact Hr2|]. intros [-> _]. rewrite key_eqb_refl in Ek. discriminate.
        -- constructor; [intros Hin; apply in_remove_pp in Hin; destruct Hin as [Hin _]; pose proof (Hfresh _ _ Hin) as F;
                         rewrite bytes_eqb_refl in F; discriminate | apply nodup_remove_pp; exact Hnd].
      * unfold e2e_snapshot. cbn [w_reg w_ipoe w_pp_all]. rewrite Hno, Hst, Hget, key_eqb_refl.
        unfold count_pp. simpl. rewrite key_eqb_refl. simpl.
        fold (count_pp k (remove_pp k (pppoe_sid m) (w_pp_all w))). rewrite (count_pp_zero k _ Hrest). reflexivity.
  - (* unowned tuple *)
    subst evs. cbn [deliver fold_left].
    assert (Hnone : forall s, ~ In (k, s) (w_pp_all w)).
    { intros s Hin. destruct (Hpp _ _ Hin) as [Hr _]. congruence. }
    assert (Hcnt : count_pp k ((k, pppoe_sid n) :: w_pp_all w) = 1%nat).
    { unfold count_pp. simpl. rewrite key_eqb_refl. simpl. f_equal. apply (count_pp_zero k _ Hnone). }
    assert (Hno : m_get k (w_ipoe w) = None).
    { destruct (m_get k (w_ipoe w)) as [s|] eqn:E; [|reflexivity]. destruct (Hip _ _ E) as [_ Hr]. congruence. }
    split.
    + constructor; cbn [w_reg w_ipoe w_pp_key w_pp_all w_next].
      * exact Hok'.
      * exact Hsids.
      * intros k2 s2 Hg. rewrite Hget. destruct (key_eqb k2 k) eqn:Ek.
        -- apply key_eqb_eq in Ek. subst k2. congruence.
        -- apply Hip. exact Hg.
      * exact Hps'.
      * exact Hpu'.
      * intros k2 s2 [Hin|Hin].
        -- inversion Hin; subst. rewrite Hget, key_eqb_refl. split; [reflexivity | apply m_get_set_same].
        -- destruct (Hpp _ _ Hin) as [Hr2 Hk2]. destruct (key_eqb k2 k) eqn:Ek.
           ++ apply key_eqb_eq in Ek. subst k2. exfalso. eapply Hnone; eauto.
           ++ rewrite Hget, Ek. split; [exact Hr2|].
              rewrite m_get_set_other by (apply key_eqb_neq; exact Ek). exact Hk2.
      * intros k2 o2. rewrite Hget. destruct (key_eqb k2 k) eqn:Ek.
        -- apply key_eqb_eq in Ek. subst k2. intros H; inversion H; subst. right. left. reflexivity.
        -- intros H. destruct (Hown _ _ H) as [Hl|Hr2]; [left; exact Hl | right; right; exact Hr2].
      * constructor; [intros Hin; pose proof (Hfresh _ _ Hin) as F; rewrite bytes_eqb_refl in F; discriminate | exact Hnd].
    + unfold e2e_snapshot. cbn [w_reg w_ipoe w_pp_all]. rewrite Hno, Hget, key_eqb_refl, Hcnt. reflexivity.
Qed.

(* every tuple of a world satisfying the invariant: no session at all, or exactly ONE session over
   both components, which is the registry owner *)
Lemma inv_exclusive w k : Inv w ->
  e2e_snapshot w k = (0%nat, 0%nat, None) \/
  e2e_snapshot w k = (1%nat, 0%nat, Some proto_ipoe) \/
  e2e_snapshot w k = (0%nat, 1%nat, Some proto_pppoe).
Proof.
  intros [Hok Hsids Hip Hps Hpu Hpp Hown Hnd]. unfold e2e_snapshot.
  destruct (m_get k (w_ipoe w)) as [s|] eqn:Ei.
  - destruct (Hip _ _ Ei) as [Es Er]. rewrite Er. right. left.
    rewrite count_pp_zero; [rewrite Es; reflexivity|].
    intros sid Hin. destruct (Hpp _ _ Hin) as [Hr _]. rewrite Er in Hr. inversion Hr as [E]. rewrite Es in E. inversion E.
  - destruct (reg_get (w_reg w) k) as [o|] eqn:Er.
    + destruct (Hown _ _ Er) as [H|H]; [congruence|]. right. right.
      destruct (Hpp _ _ H) as [Hr _]. rewrite Er in Hr. injection Hr as Eo.
      rewrite (count_pp_one k (o_sid o) _ Hnd H); [rewrite Eo; reflexivity|].
      intros s Hin. destruct (Hpp _ _ Hin) as [Hr2 _]. rewrite Er in Hr2. injection Hr2 as E2.
      rewrite E2. reflexivity.
    + left. rewrite count_pp_zero; [reflexivity|].
      intros sid Hin. destruct (Hpp _ _ Hin) as [Hr _]. congruence.
Qed.

Lemma step_inv w o : Inv w -> Inv (e2e_step Repaired w o).
Proof.
  intros I. destruct o as [k|k|k|k].
  - apply (step_create w k I).
  - apply (step_create w k I).
  - apply (step_create w k I).
  - apply (step_padr w k I).
Qed.
Lemma run_inv ops : forall w, Inv w -> Inv (e2e_run Repaired w ops).
Proof.
  induction ops as [|o rest IH]; intros w I; [exact I|].
  cbn [e2e_run fold_left]. apply IH. apply step_inv. exact I.
Qed.

(* the end-to-end statement for the repaired variant, every history of DISCOVER / REQUEST / SOLICIT /
   PADR (replayed PADRs included) *)
Lemma e2e_newest_survives ops o :
  let w' := e2e_step Repaired (e2e_run Repaired world0 ops) o in
  (forall k, e2e_snapshot w' k = (0%nat, 0%nat, None) \/
             e2e_snapshot w' k = (1%nat, 0%nat, Some proto_ipoe) \/
             e2e_snapshot w' k = (0%nat, 1%nat, Some proto_pppoe)) /\
  match o with
  | EDiscover k | ERequest k | ESolicit k => e2e_snapshot w' k = (1%nat, 0%nat, Some proto_ipoe)
  | EPadr k => e2e_snapshot w' k = (0%nat, 1%nat, Some proto_pppoe)
  end.
Proof.
  intros w'. pose proof (run_inv ops world0 inv0) as I.
  split.
  - intros k. apply inv_exclusive. apply step_inv. exact I.
  - destruct o as [k|k|k|k].
    + apply (step_create _ k I).
    + apply (step_create _ k I).
    + apply (step_create _ k I).
    + apply (step_padr _ k I).
Qed.

(* ---- refutations: what each missing repair costs ---- *)
Definition e2e_k : key := mkKey 100 10 [2; 170; 187; 204; 0; 1]%N.
Definition NoClaimOnRequestSolicit : variant := mkV true false true.
Definition SupersededSurvives : variant := mkV true true false.

(* before 94649ad (fixed): the displacing session was destroyed by its own eviction event *)
Lemma e2e_defective_witness :
  e2e_snapshot (e2e_run Defective world0 [EDiscover e2e_k; EPadr e2e_k]) e2e_k = (0%nat, 0%nat, None) /\
  e2e_snapshot (e2e_run Defective world0 [EPadr e2e_k; EDiscover e2e_k]) e2e_k = (0%nat, 0%nat, None).
Proof. vm_compute. split; reflexivity. Qed.

(* an IPoE session created by REQUEST or SOLICIT never claims: it coexists with a PPPoE session,
   whichever comes first, and never owns its tuple *)
Lemma e2e_unclaimed_paths_witness :
  e2e_snapshot (e2e_run NoClaimOnRequestSolicit world0 [ERequest e2e_k]) e2e_k = (1%nat, 0%nat, None) /\
  e2e_snapshot (e2e_run NoClaimOnRequestSolicit world0 [ERequest e2e_k; EPadr e2e_k]) e2e_k = (1%nat, 1%nat, Some proto_pppoe) /\
  e2e_snapshot (e2e_run NoClaimOnRequestSolicit world0 [ESolicit e2e_k; EPadr e2e_k]) e2e_k = (1%nat, 1%nat, Some proto_pppoe) /\
  e2e_snapshot (e2e_run NoClaimOnRequestSolicit world0 [EPadr e2e_k; ERequest e2e_k]) e2e_k = (1%nat, 1%nat, Some proto_pppoe) /\
  e2e_snapshot (e2e_run NoClaimOnRequestSolicit world0 [EPadr e2e_k; ESolicit e2e_k]) e2e_k = (1%nat, 1%nat, Some proto_pppoe).
Proof. vm_compute. repeat split; reflexivity. Qed.

(* a replayed PADR leaves the older PPPoE session alive; an IPoE takeover then evicts only the owner
   and an IPoE and a PPPoE session share the tuple *)
Lemma e2e_superseded_witness :
  e2e_snapshot (e2e_run SupersededSurvives world0 [EPadr e2e_k; EPadr e2e_k]) e2e_k = (0%nat, 2%nat, Some proto_pppoe) /\
  e2e_snapshot (e2e_run SupersededSurvives world0 [EPadr e2e_k; EPadr e2e_k; EDiscover e2e_k]) e2e_k = (1%nat, 1%nat, Some proto_ipoe).
Proof. vm_compute. split; reflexivity. Qed.

(* ---- restart ---- *)
Definition keys_nodup (w : world) : Prop := NoDup (map fst (w_ipoe w)).

Lemma ipoe_terminate_keys v w ev : keys_nodup w -> keys_nodup (ipoe_terminate v w ev).
Proof.
  unfold keys_nodup, ipoe_terminate. destruct ev as [sid k]. intros H.
  destruct (match key_hit v sid (m_get k (w_ipoe w)) with Some s => Some s | None => find_sid sid (w_ipoe w) end);
    [cbn [w_ipoe]; apply m_del_keys_nodup; exact H | exact H].
Qed.
Lemma pppoe_terminate_ipoe v w ev : w_ipoe (pppoe_terminate v w ev) = w_ipoe w.
Proof.
  unfold pppoe_terminate. destruct ev as [sid k].
  destruct (match key_hit v sid (m_get k (w_pp_key w)) with Some s => Some (o_key s, o_sid s) | None => find_pp sid (w_pp_all w) end)
    as [[k' sid']|]; reflexivity.
Qed.
Lemma deliver_keys v evs k : forall w, keys_nodup w -> keys_nodup (deliver v w evs k).
Proof.
  unfold deliver. induction evs as [|sid r IH]; intros w H; [exact H|]. cbn [fold_left]. apply IH.
  unfold keys_nodup. rewrite pppoe_terminate_ipoe. apply ipoe_terminate_keys. exact H.
Qed.
Lemma step_keys v w o : keys_nodup w -> keys_nodup (e2e_step v w o).
Proof.
  intros H.
  assert (Hc : forall b, keys_nodup (ipoe_create v b w (match o with EDiscover k | ERequest k | ESolicit k | EPadr k => k end))).
  { intros b. unfold ipoe_create. destruct (m_get _ (w_ipoe w)); [exact H|]. cbn [w_reg w_ipoe w_pp_key w_pp_all w_next].
    destruct b.
    - destruct (component_claim proto_ipoe (w_reg w) _ _) as [r' evs]. apply deliver_keys. unfold keys_nodup. cbn [w_ipoe].
      apply m_set_keys_nodup. exact H.
    - unfold keys_nodup. cbn [w_ipoe]. apply m_set_keys_nodup. exact H. }
  destruct o as [k|k|k|k]; cbn [e2e_step]; try apply Hc.
  destruct (site_claim (v_evict_pp v) proto_pppoe (w_reg w) k (pppoe_sid (w_next w))) as [r' evs].
  apply deliver_keys. exact H.
Qed.
Lemma run_keys v ops : forall w, keys_nodup w -> keys_nodup (e2e_run v w ops).
Proof. induction ops as [|o r IH]; intros w H; [exact H|]. cbn [e2e_run fold_left]. apply IH. apply step_keys. exact H. Qed.

(* folding claims over a list of sessions: the last claim on a tuple decides *)
Lemma fold_reclaim_ipoe_get k L : forall r, reg_ok r ->
  reg_ok (fold_left reclaim_ipoe L r) /\
  reg_get (fold_left reclaim_ipoe L r) k =
  fold_left (fun acc e => if key_eqb k (fst e) then Some (ipo (o_sid (snd e)) (fst e)) else acc) L (reg_get r k).
Proof.
  induction L as [|e t IH]; intros r Hok; [split; [exact Hok | reflexivity]|].
  cbn [fold_left]. unfold reclaim_ipoe at 2 4.
  destruct (IH (fst (component_claim proto_ipoe r (fst e) (o_sid (snd e)))) (cclaim_ok _ _ _ _ Hok)) as [A B].
  split; [exact A|]. rewrite B. rewrite cclaim_get by exact Hok. reflexivity.
Qed.
Lemma fold_reclaim_pppoe_get k L : forall r, reg_ok r ->
  reg_ok (fold_left reclaim_pppoe L r) /\
  reg_get (fold_left reclaim_pppoe L r) k =
  fold_left (fun acc e => if key_eqb k (fst e) then Some (ppo (snd e) (fst e)) else acc) L (reg_get r k).
Proof.
  induction L as [|e t IH]; intros r Hok; [split; [exact Hok | reflexivity]|].
  cbn [fold_left]. unfold reclaim_pppoe at 2 4.
  destruct (IH (fst (component_claim_any proto_pppoe r (fst e) (snd e))) (cany_ok _ _ _ _ Hok)) as [A B].
  split; [exact A|]. rewrite B. rewrite cany_get by exact Hok. reflexivity.
Qed.
Lemma fold_decides {E} (hit : E -> bool) (val : E -> owner) (v : owner) (L : list E) :
  (forall e, In e L -> hit e = true -> val e = v) ->
  forall acc, fold_left (fun acc e => if hit e then Some (val e) else acc) L acc =
              if existsb hit L then Some v else acc.
Proof.
  induction L as [|e t IH]; intros H acc; [reflexivity|]. cbn [fold_left existsb].
  rewrite IH by (intros e' Hin; apply H; right; exact Hin).
  destruct (hit e) eqn:Eh; cbn [orb].
  - rewrite (H e (or_introl eq_refl) Eh). destruct (existsb hit t); reflexivity.
  - reflexivity.
Qed.

(* after a restart every live session owns its tuple again: the rebuilt registry names exactly the
   owners the registry named before, for every tuple *)
Lemma restart_reowns w : Inv w -> keys_nodup w ->
  forall k, reg_get (w_reg (e2e_restart w)) k = reg_get (w_reg w) k.
Proof.
  intros [Hok Hsids Hip Hps Hpu Hpp Hown Hnd] Hkeys k. unfold e2e_restart. cbn [w_reg].
  destruct (fold_reclaim_ipoe_get k (w_ipoe w) new_registry new_registry_ok) as [Hok1 G1].
  destruct (fold_reclaim_pppoe_get k (w_pp_all w) _ Hok1) as [_ G2]. rewrite G2, G1, reg_get_new. clear G1 G2.
  (* ipoe part: the entry of k, if any *)
  set (A := fold_left (fun acc e => if key_eqb k (fst e) then Some (ipo (o_sid (snd e)) (fst e)) else acc) (w_ipoe w) None).
  assert (HA : A = m_get k (w_ipoe w)).
  { unfold A. destruct (m_get k (w_ipoe w)) as [s|] eqn:Eg.
    - rewrite (fold_decides (fun e => key_eqb k (fst e)) (fun e => ipo (o_sid (snd e)) (fst e)) s).
      + assert (existsb (fun e => key_eqb k (fst e)) (w_ipoe w) = true) as ->; [|reflexivity].
        apply existsb_exists. exists (k, s). split; [apply m_get_some_in; exact Eg | apply key_eqb_refl].
      + intros [k2 s2] Hin Hh. cbn [fst snd] in *. apply key_eqb_eq in Hh. subst k2.
        pose proof (m_get_in _ _ _ Hkeys Hin) as G. rewrite Eg in G. inversion G; subst s2.
        destruct (Hip _ _ Eg) as [Es _]. symmetry. exact Es.
    - rewrite (fold_decides (fun e => key_eqb k (fst e)) (fun e => ipo (o_sid (snd e)) (fst e)) (ipo [] k)).
      + assert (existsb (fun e => key_eqb k (fst e)) (w_ipoe w) = false) as ->; [|reflexivity].
        destruct (existsb _ (w_ipoe w)) eqn:Ex; [|reflexivity]. apply existsb_exists in Ex.
        destruct Ex as [[k2 s2] [Hin Hh]]. cbn [fst] in Hh. apply key_eqb_eq in Hh. subst k2.
        rewrite (m_get_in _ _ _ Hkeys Hin) in Eg. discriminate.
      + intros [k2 s2] Hin Hh. cbn [fst] in Hh. apply key_eqb_eq in Hh. subst k2.
        rewrite (m_get_in _ _ _ Hkeys Hin) in Eg. discriminate. }
  rewrite HA. clear A HA.
  destruct (reg_get (w_reg w) k) as [o|] eqn:Er.
  - destruct (Hown _ _ Er) as [Hl|Hr].
    + (* ipoe owner: no pppoe session of the tuple *)
      rewrite Hl. rewrite (fold_decides (fun e => key_eqb k (fst e)) (fun e => ppo (snd e) (fst e)) o).
      * assert (existsb (fun e : key * bytes => key_eqb k (fst e)) (w_pp_all w) = false) as ->; [|reflexivity].
        destruct (existsb _ (w_pp_all w)) eqn:Ex; [|reflexivity]. apply existsb_exists in Ex.
        destruct Ex as [[k2 s2] [Hin Hh]]. cbn [fst] in Hh. apply key_eqb_eq in Hh. subst k2.
        destruct (Hpp _ _ Hin) as [Hr2 _]. rewrite Er in Hr2. destruct (Hip _ _ Hl) as [Es _].
        injection Hr2 as E2. rewrite E2 in Es. unfold ipo, ppo in Es. inversion Es.
      * intros [k2 s2] Hin Hh. cbn [fst snd] in *. apply key_eqb_eq in Hh. subst k2.
        destruct (Hpp _ _ Hin) as [Hr2 _]. rewrite Er in Hr2. injection Hr2 as E2. symmetry. exact E2.
    + destruct (Hpp _ _ Hr) as [Hr2 _]. rewrite Er in Hr2. injection Hr2 as Eo.
      rewrite (fold_decides (fun e => key_eqb k (fst e)) (fun e => ppo (snd e) (fst e)) o).
      * assert (existsb (fun e : key * bytes => key_eqb k (fst e)) (w_pp_all w) = true) as ->; [|reflexivity].
        apply existsb_exists. exists (k, o_sid o). split; [exact Hr | apply key_eqb_refl].
      * intros [k2 s2] Hin Hh. cbn [fst snd] in *. apply key_eqb_eq in Hh. subst k2.
        destruct (Hpp _ _ Hin) as [Hr3 _]. rewrite Er in Hr3. injection Hr3 as E3. symmetry. exact E3.
  - assert (m_get k (w_ipoe w) = None) as ->.
    { destruct (m_get k (w_ipoe w)) as [s|] eqn:E; [|reflexivity]. destruct (Hip _ _ E) as [_ Hr]. congruence. }
    rewrite (fold_decides (fun e => key_eqb k (fst e)) (fun e => ppo (snd e) (fst e)) (ipo [] k)).
    + assert (existsb (fun e : key * bytes => key_eqb k (fst e)) (w_pp_all w) = false) as ->; [|reflexivity].
      destruct (existsb _ (w_pp_all w)) eqn:Ex; [|reflexivity]. apply existsb_exists in Ex.
      destruct Ex as [[k2 s2] [Hin Hh]]. cbn [fst] in Hh. apply key_eqb_eq in Hh. subst k2.
      destruct (Hpp _ _ Hin) as [Hr2 _]. congruence.
    + intros [k2 s2] Hin Hh. cbn [fst] in Hh. apply key_eqb_eq in Hh. subst k2.
      destruct (Hpp _ _ Hin) as [Hr2 _]. congruence.
Qed.

Lemma restart_reowns_run ops :
  let w := e2e_run Repaired world0 ops in
  forall k, reg_get (w_reg (e2e_restart w)) k = reg_get (w_reg w) k /\
            e2e_snapshot (e2e_restart w) k = e2e_snapshot w k.
Proof.
  intros w k.
  assert (H : reg_get (w_reg (e2e_restart w)) k = reg_get (w_reg w) k).
  { apply restart_reowns; [apply run_inv; apply inv0 | apply run_keys; constructor]. }
  split; [exact H|]. unfold e2e_snapshot. rewrite H. reflexivity.
Qed.

(* before /repo d2827a3: a half-established restored ipoe session owned nothing and coexisted with a PPPoE session *)
Lemma restart_skipping_witness :
  let w := e2e_run Repaired world0 [EDiscover e2e_k] in
  e2e_snapshot (e2e_restart_skipping Repaired [e2e_k] w) e2e_k = (1%nat, 0%nat, None) /\
  e2e_snapshot (e2e_step Repaired (e2e_restart_skipping Repaired [e2e_k] w) (EPadr e2e_k)) e2e_k = (1%nat, 1%nat, Some proto_pppoe) /\
  e2e_snapshot (e2e_restart w) e2e_k = (1%nat, 0%nat, Some proto_ipoe).
Proof. vm_compute. repeat split; reflexivity. Qed.
