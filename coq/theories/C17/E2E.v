(* C17/E2E.v — the two components around one registry and one event bus (Model.e2e_step):
   with terminate events resolved as /repo HEAD does since 94649ad (variant Repaired), the session
   of the newest claimant is the only live session of its tuple and the registry owner; the code
   before that fix (variant Defective) destroyed it. *)
From OV Require Import Common.Base C17.Model C17.Proofs.

Lemma sid_disjoint n m : bytes_eqb (ipoe_sid n) (pppoe_sid m) = false /\ bytes_eqb (pppoe_sid m) (ipoe_sid n) = false.
Proof. split; reflexivity. Qed.
Lemma proto_disjoint : bytes_eqb proto_pppoe proto_ipoe = false /\ bytes_eqb proto_ipoe proto_pppoe = false.
Proof. split; reflexivity. Qed.

Lemma in_count_pp k sid l : In (k, sid) l -> count_pp k l <> 0%nat.
Proof.
  unfold count_pp. induction l as [|[k' s] r IH]; simpl; [tauto|].
  intros [H|H].
  - inversion H; subst. rewrite key_eqb_refl. simpl. discriminate.
  - destruct (key_eqb k' k); simpl; auto.
Qed.
Lemma count_pp_zero k l : (forall s, ~ In (k, s) l) -> count_pp k l = 0%nat.
Proof.
  unfold count_pp. induction l as [|[k' s] r IH]; simpl; intros H; [reflexivity|].
  destruct (key_eqb k' k) eqn:E.
  - apply key_eqb_eq in E. subst. exfalso. apply (H s). auto.
  - apply IH. intros s' Hin. apply (H s'). auto.
Qed.
Lemma in_remove_pp k sid k' s' l :
  In (k', s') (remove_pp k sid l) <-> In (k', s') l /\ ~ (k' = k /\ s' = sid).
Proof.
  induction l as [|[k2 s2] r IH]; simpl; [tauto|].
  destruct (key_eqb k2 k && bytes_eqb s2 sid) eqn:E.
  - apply andb_true_iff in E. destruct E as [E1 E2]. apply key_eqb_eq in E1. apply bytes_eqb_eq in E2. subst.
    rewrite IH. split; [tauto|]. intros [[H|H] Hn]; [inversion H; subst; tauto | tauto].
  - simpl. rewrite IH. split.
    + intros [H|H]; [|tauto]. inversion H; subst. split; [auto|]. intros [-> ->].
      rewrite key_eqb_refl, bytes_eqb_refl in E. discriminate.
    + tauto.
Qed.
Lemma find_sid_none sid m : (forall k s, In (k, s) m -> bytes_eqb (o_sid s) sid = false) -> find_sid sid m = None.
Proof.
  induction m as [|[k s] r IH]; simpl; intros H; [reflexivity|].
  rewrite (H k s) by auto. apply IH. intros k' s' Hin. apply (H k' s'). auto.
Qed.
Lemma find_pp_none sid l : (forall k s, In (k, s) l -> bytes_eqb s sid = false) -> find_pp sid l = None.
Proof.
  induction l as [|[k s] r IH]; simpl; intros H; [reflexivity|].
  rewrite (H k s) by auto. apply IH. intros k' s' Hin. apply (H k' s'). auto.
Qed.

Definition ipo (sid : bytes) (k : key) : owner := mkOwner proto_ipoe sid k.
Definition ppo (sid : bytes) (k : key) : owner := mkOwner proto_pppoe sid k.

Record Inv (w : world) : Prop := {
  v_ok : reg_ok (w_reg w);
  v_ipoe_sids : forall k s, In (k, s) (w_ipoe w) -> exists n, o_sid s = ipoe_sid n;
  v_ipoe : forall k s, m_get k (w_ipoe w) = Some s ->
      s = ipo (o_sid s) k /\ reg_get (w_reg w) k = Some s;
  v_pp : forall k sid, In (k, sid) (w_pp_all w) ->
      (exists n, sid = pppoe_sid n) /\ reg_get (w_reg w) k = Some (ppo sid k) /\
      m_get k (w_pp_key w) = Some (ppo sid k);
  v_owner : forall k o, reg_get (w_reg w) k = Some o ->
      m_get k (w_ipoe w) = Some o \/ In (k, o_sid o) (w_pp_all w)
}.

Lemma inv0 : Inv world0.
Proof.
  constructor; simpl; try tauto; try discriminate.
  - apply new_registry_ok.
  - intros k o H. rewrite reg_get_new in H. discriminate.
Qed.

(* registry-level facts in the vocabulary of this file *)
Lemma cclaim_get self r k sid k' : reg_ok r ->
  reg_get (fst (component_claim self r k sid)) k' =
  if key_eqb k' k then Some (mkOwner self sid k) else reg_get r k'.
Proof.
  intros H. rewrite component_claim_state. rewrite reg_step_get by exact H. reflexivity.
Qed.
Lemma cclaim_ok self r k sid : reg_ok r -> reg_ok (fst (component_claim self r k sid)).
Proof. intros H. rewrite component_claim_state. apply reg_step_ok. exact H. Qed.
Lemma crelease_stale self r k sid k' : reg_ok r ->
  (forall cur, reg_get r k = Some cur -> same_id cur (mkOwner self sid k) = false) ->
  reg_get (component_release self r k sid) k' = reg_get r k'.
Proof.
  intros H Hn. unfold component_release. fold (release r k (mkOwner self sid k)).
  rewrite release_get by exact H. rewrite is_owner_get.
  destruct (reg_get r k) as [cur|] eqn:E; [rewrite (Hn cur eq_refl)|]; rewrite andb_false_r; reflexivity.
Qed.
Lemma crelease_ok self r k sid : reg_ok r -> reg_ok (component_release self r k sid).
Proof. intros H. unfold component_release. apply reg_step_ok. exact H. Qed.

(* the two terminate handlers, Repaired variant *)
Lemma ipoe_terminate_miss w sid k :
  (forall k2 s2, In (k2, s2) (w_ipoe w) -> bytes_eqb (o_sid s2) sid = false) ->
  ipoe_terminate Repaired w (sid, k) = w.
Proof.
  intros H. unfold ipoe_terminate.
  assert (key_hit Repaired sid (m_get k (w_ipoe w)) = None) as ->.
  { destruct (m_get k (w_ipoe w)) as [s|] eqn:E; [|reflexivity]. simpl.
    rewrite (H k s) by (apply m_get_some_in; exact E). reflexivity. }
  rewrite find_sid_none by exact H. reflexivity.
Qed.
Lemma ipoe_terminate_hit w sid k s :
  m_get k (w_ipoe w) = Some s -> o_sid s = sid ->
  ipoe_terminate Repaired w (sid, k) =
  mkW (component_release proto_ipoe (w_reg w) (o_key s) (o_sid s)) (m_del (o_key s) (w_ipoe w))
      (w_pp_key w) (w_pp_all w) (w_next w).
Proof.
  intros H E. subst sid. unfold ipoe_terminate. rewrite H. simpl. rewrite bytes_eqb_refl. reflexivity.
Qed.
Lemma pppoe_terminate_miss w sid k :
  (forall s, m_get k (w_pp_key w) = Some s -> bytes_eqb (o_sid s) sid = false) ->
  (forall k2 s2, In (k2, s2) (w_pp_all w) -> bytes_eqb s2 sid = false) ->
  pppoe_terminate Repaired w (sid, k) = w.
Proof.
  intros H1 H2. unfold pppoe_terminate.
  assert (key_hit Repaired sid (m_get k (w_pp_key w)) = None) as ->.
  { destruct (m_get k (w_pp_key w)) as [s|] eqn:E; [|reflexivity]. simpl. rewrite (H1 s eq_refl). reflexivity. }
  rewrite find_pp_none by exact H2. reflexivity.
Qed.
Lemma pppoe_terminate_hit w sid k s :
  m_get k (w_pp_key w) = Some s -> o_sid s = sid -> o_key s = k ->
  pppoe_terminate Repaired w (sid, k) =
  mkW (component_release proto_pppoe (w_reg w) (o_key s) (o_sid s)) (w_ipoe w)
      (m_del (o_key s) (w_pp_key w)) (remove_pp (o_key s) (o_sid s) (w_pp_all w)) (w_next w).
Proof.
  intros H E Ek. subst sid. unfold pppoe_terminate. rewrite H. simpl. rewrite bytes_eqb_refl.
  rewrite Ek, H, bytes_eqb_refl. reflexivity.
Qed.

(* one step of the repaired system, on a world satisfying the invariant *)
Lemma step_discover w k : Inv w ->
  let w' := e2e_step Repaired w (EDiscover k) in
  Inv w' /\ e2e_snapshot w' k = (1%nat, 0%nat, Some proto_ipoe).
Proof.
  intros I. destruct I as [Hok Hsids Hip Hpp Hown]. cbn [e2e_step].
  destruct (m_get k (w_ipoe w)) as [s|] eqn:Eg.
  - (* a session for the tuple exists: nothing happens *)
    split; [constructor; auto|]. unfold e2e_snapshot. rewrite Eg.
    destruct (Hip k s Eg) as [Es Er]. rewrite Er.
    assert (count_pp k (w_pp_all w) = 0%nat) as ->.
    { apply count_pp_zero. intros sid Hin. destruct (Hpp _ _ Hin) as [_ [Hr _]]. rewrite Er in Hr.
      inversion Hr as [E]. rewrite Es in E. unfold ipo, ppo in E. inversion E. }
    rewrite Es. reflexivity.
  - set (n := w_next w). set (X := ipo (ipoe_sid n) k).
    pose proof (component_claim_events proto_ipoe (w_reg w) k (ipoe_sid n)) as Hev.
    pose proof (fun k' => cclaim_get proto_ipoe (w_reg w) k (ipoe_sid n) k' Hok) as Hget.
    pose proof (cclaim_ok proto_ipoe (w_reg w) k (ipoe_sid n) Hok) as Hok'.
    destruct (component_claim proto_ipoe (w_reg w) k (ipoe_sid n)) as [r' evs]. cbn [fst snd] in *.
    rewrite lookup_get in Hev.
    destruct (reg_get (w_reg w) k) as [prev|] eqn:Eprev.
    + (* owned by a pppoe session: it is evicted, the new ipoe session stays *)
      destruct (Hown k prev Eprev) as [Hc|Hc]; [congruence|].
      destruct (Hpp _ _ Hc) as [[m Em] [Hr Hk]]. rewrite Em in Hr, Hk. rewrite Eprev in Hr.
      inversion Hr as [Eprev']. clear Hr Hc Em. subst prev.
      cbn [o_proto o_sid ppo] in *. replace (bytes_eqb proto_pppoe proto_ipoe) with false in Hev by reflexivity.
      subst evs.
      cbn [deliver fold_left].
      rewrite ipoe_terminate_miss.
      2:{ cbn [w_ipoe]. intros k2 s2 Hin. apply in_m_set in Hin. destruct Hin as [[_ ->]|[Hin _]]; [reflexivity|].
          destruct (Hsids _ _ Hin) as [n2 ->]. reflexivity. }
      rewrite (pppoe_terminate_hit _ (pppoe_sid m) k (ppo (pppoe_sid m) k)) by (cbn [w_pp_key]; auto).
      cbn [w_pp_key w_pp_all w_reg w_ipoe w_next o_key o_sid ppo].
      assert (Hst : forall k', reg_get (component_release proto_pppoe r' k (pppoe_sid m)) k' = reg_get r' k').
      { intros k'. apply crelease_stale; [exact Hok'|]. intros cur Hc'. rewrite Hget, key_eqb_refl in Hc'.
        inversion Hc'. reflexivity. }
      split.
      * constructor; cbn [w_reg w_ipoe w_pp_key w_pp_all].
        -- apply crelease_ok. exact Hok'.
        -- intros k2 s2 Hin. apply in_m_set in Hin. destruct Hin as [[_ ->]|[Hin _]]; [exists n; reflexivity | eauto].
        -- intros k2 s2 Hg. rewrite Hst, Hget.
           destruct (key_eqb k2 k) eqn:Ek.
           ++ apply key_eqb_eq in Ek. subst k2. rewrite m_get_set_same in Hg. inversion Hg. subst s2. split; reflexivity.
           ++ rewrite m_get_set_other in Hg by (apply key_eqb_neq; exact Ek). apply Hip. exact Hg.
        -- intros k2 s2 Hin. apply in_remove_pp in Hin. destruct Hin as [Hin Hne].
           destruct (Hpp _ _ Hin) as [Hn [Hr2 Hk2]].
           destruct (key_eqb k2 k) eqn:Ek.
           ++ apply key_eqb_eq in Ek. subst k2. rewrite Eprev in Hr2. inversion Hr2. exfalso. apply Hne. auto.
           ++ split; [exact Hn|]. rewrite Hst, Hget, Ek. split; [exact Hr2|].
              rewrite m_get_del_other by (apply key_eqb_neq; exact Ek). exact Hk2.
        -- intros k2 o2. rewrite Hst, Hget. destruct (key_eqb k2 k) eqn:Ek.
           ++ apply key_eqb_eq in Ek. subst k2. intros H; inversion H; subst. left. apply m_get_set_same.
           ++ intros H. destruct (Hown _ _ H) as [Hl|Hr2].
              ** left. rewrite m_get_set_other by (apply key_eqb_neq; exact Ek). exact Hl.
              ** right. apply in_remove_pp. split; [exact Hr2|]. intros [-> _]. rewrite key_eqb_refl in Ek. discriminate.
      * unfold e2e_snapshot. cbn [w_reg w_ipoe w_pp_all]. rewrite m_get_set_same, Hst, Hget, key_eqb_refl.
        rewrite count_pp_zero; [reflexivity|].
        intros s2 Hin. apply in_remove_pp in Hin. destruct Hin as [Hin Hne].
        destruct (Hpp _ _ Hin) as [_ [Hr2 _]]. rewrite Eprev in Hr2. inversion Hr2. apply Hne. auto.
    + (* unowned tuple *)
      subst evs. cbn [deliver fold_left]. split.
      * constructor; cbn [w_reg w_ipoe w_pp_key w_pp_all].
        -- exact Hok'.
        -- intros k2 s2 Hin. apply in_m_set in Hin. destruct Hin as [[_ ->]|[Hin _]]; [exists n; reflexivity | eauto].
        -- intros k2 s2 Hg. rewrite Hget. destruct (key_eqb k2 k) eqn:Ek.
           ++ apply key_eqb_eq in Ek. subst k2. rewrite m_get_set_same in Hg. inversion Hg. split; reflexivity.
           ++ rewrite m_get_set_other in Hg by (apply key_eqb_neq; exact Ek). apply Hip. exact Hg.
        -- intros k2 s2 Hin. destruct (Hpp _ _ Hin) as [Hn [Hr2 Hk2]]. rewrite Hget.
           destruct (key_eqb k2 k) eqn:Ek; [apply key_eqb_eq in Ek; subst; congruence | auto].
        -- intros k2 o2. rewrite Hget. destruct (key_eqb k2 k) eqn:Ek.
           ++ apply key_eqb_eq in Ek. subst k2. intros H; inversion H; subst. left. apply m_get_set_same.
           ++ intros H. destruct (Hown _ _ H) as [Hl|Hr2]; [left|right; exact Hr2].
              rewrite m_get_set_other by (apply key_eqb_neq; exact Ek). exact Hl.
      * unfold e2e_snapshot. cbn [w_reg w_ipoe w_pp_all]. rewrite m_get_set_same, Hget, key_eqb_refl.
        rewrite count_pp_zero; [reflexivity|].
        intros s2 Hin. destruct (Hpp _ _ Hin) as [_ [Hr2 _]]. congruence.
Qed.

Lemma step_padr w k : Inv w -> count_pp k (w_pp_all w) = 0%nat ->
  let w' := e2e_step Repaired w (EPadr k) in
  Inv w' /\ e2e_snapshot w' k = (0%nat, 1%nat, Some proto_pppoe).
Proof.
  intros I Hz. destruct I as [Hok Hsids Hip Hpp Hown]. cbn [e2e_step].
  set (n := w_next w). set (P := ppo (pppoe_sid n) k).
  assert (Hnone : forall s, ~ In (k, s) (w_pp_all w)).
  { intros s Hin. apply in_count_pp in Hin. contradiction. }
  pose proof (component_claim_events proto_pppoe (w_reg w) k (pppoe_sid n)) as Hev.
  pose proof (fun k' => cclaim_get proto_pppoe (w_reg w) k (pppoe_sid n) k' Hok) as Hget.
  pose proof (cclaim_ok proto_pppoe (w_reg w) k (pppoe_sid n) Hok) as Hok'.
  destruct (component_claim proto_pppoe (w_reg w) k (pppoe_sid n)) as [r' evs]. cbn [fst snd] in *.
  rewrite lookup_get in Hev.
  assert (Hcnt : count_pp k ((k, pppoe_sid n) :: w_pp_all w) = 1%nat).
  { unfold count_pp in *. simpl. rewrite key_eqb_refl. simpl. rewrite Hz. reflexivity. }
  destruct (reg_get (w_reg w) k) as [prev|] eqn:Eprev.
  - (* owned by an ipoe session: it is evicted, the new pppoe session stays *)
    destruct (Hown k prev Eprev) as [Hc|Hc]; [|exfalso; eapply Hnone; eauto].
    destruct (Hip _ _ Hc) as [Es _].
    destruct (Hsids k prev (m_get_some_in _ _ _ Hc)) as [m Em]. rewrite Em in Es.
    subst prev. cbn [o_proto o_sid ipo] in *.
    replace (bytes_eqb proto_ipoe proto_pppoe) with false in Hev by reflexivity. subst evs. clear Em.
    cbn [deliver fold_left].
    rewrite (ipoe_terminate_hit _ (ipoe_sid m) k (ipo (ipoe_sid m) k)) by (cbn [w_ipoe]; auto).
    cbn [w_pp_key w_pp_all w_reg w_ipoe w_next o_key o_sid ipo].
    rewrite pppoe_terminate_miss.
    2:{ cbn [w_pp_key]. intros s Hs. rewrite m_get_set_same in Hs. inversion Hs. reflexivity. }
    2:{ cbn [w_pp_all]. intros k2 s2 [Hin|Hin]; [inversion Hin; reflexivity|].
        destruct (Hpp _ _ Hin) as [[n2 ->] _]. reflexivity. }
    assert (Hst : forall k', reg_get (component_release proto_ipoe r' k (ipoe_sid m)) k' = reg_get r' k').
    { intros k'. apply crelease_stale; [exact Hok'|]. intros cur Hc'. rewrite Hget, key_eqb_refl in Hc'.
      inversion Hc'. reflexivity. }
    split.
    + constructor; cbn [w_reg w_ipoe w_pp_key w_pp_all].
      * apply crelease_ok. exact Hok'.
      * intros k2 s2 Hin. apply in_m_del in Hin. destruct Hin as [Hin _]. eauto.
      * intros k2 s2 Hg. rewrite Hst, Hget. destruct (key_eqb k2 k) eqn:Ek.
        -- apply key_eqb_eq in Ek. subst k2. rewrite m_get_del_same in Hg. discriminate.
        -- rewrite m_get_del_other in Hg by (apply key_eqb_neq; exact Ek). apply Hip. exact Hg.
      * intros k2 s2 [Hin|Hin].
        -- inversion Hin; subst. split; [exists n; reflexivity|]. rewrite Hst, Hget, key_eqb_refl.
           split; [reflexivity | apply m_get_set_same].
        -- destruct (Hpp _ _ Hin) as [Hn [Hr2 Hk2]]. destruct (key_eqb k2 k) eqn:Ek.
           ++ apply key_eqb_eq in Ek. subst k2. exfalso. eapply Hnone; eauto.
           ++ split; [exact Hn|]. rewrite Hst, Hget, Ek. split; [exact Hr2|].
              rewrite m_get_set_other by (apply key_eqb_neq; exact Ek). exact Hk2.
      * intros k2 o2. rewrite Hst, Hget. destruct (key_eqb k2 k) eqn:Ek.
        -- apply key_eqb_eq in Ek. subst k2. intros H; inversion H; subst. right. left. reflexivity.
        -- intros H. destruct (Hown _ _ H) as [Hl|Hr2]; [left|right; right; exact Hr2].
           rewrite m_get_del_other by (apply key_eqb_neq; exact Ek). exact Hl.
    + unfold e2e_snapshot. cbn [w_reg w_ipoe w_pp_all]. rewrite m_get_del_same, Hst, Hget, key_eqb_refl, Hcnt. reflexivity.
  - (* unowned tuple *)
    subst evs. cbn [deliver fold_left].
    assert (Hno : m_get k (w_ipoe w) = None).
    { destruct (m_get k (w_ipoe w)) as [s|] eqn:E; [|reflexivity]. destruct (Hip _ _ E) as [_ Hr]. congruence. }
    split.
    + constructor; cbn [w_reg w_ipoe w_pp_key w_pp_all].
      * exact Hok'.
      * exact Hsids.
      * intros k2 s2 Hg. rewrite Hget. destruct (key_eqb k2 k) eqn:Ek.
        -- apply key_eqb_eq in Ek. subst k2. congruence.
        -- apply Hip. exact Hg.
      * intros k2 s2 [Hin|Hin].
        -- inversion Hin; subst. split; [exists n; reflexivity|]. rewrite Hget, key_eqb_refl.
           split; [reflexivity | apply m_get_set_same].
        -- destruct (Hpp _ _ Hin) as [Hn [Hr2 Hk2]]. destruct (key_eqb k2 k) eqn:Ek.
           ++ apply key_eqb_eq in Ek. subst k2. exfalso. eapply Hnone; eauto.
           ++ split; [exact Hn|]. rewrite Hget, Ek. split; [exact Hr2|].
              rewrite m_get_set_other by (apply key_eqb_neq; exact Ek). exact Hk2.
      * intros k2 o2. rewrite Hget. destruct (key_eqb k2 k) eqn:Ek.
        -- apply key_eqb_eq in Ek. subst k2. intros H; inversion H; subst. right. left. reflexivity.
        -- intros H. destruct (Hown _ _ H) as [Hl|Hr2]; [left; exact Hl | right; right; exact Hr2].
    + unfold e2e_snapshot. cbn [w_reg w_ipoe w_pp_all]. rewrite Hno, Hget, key_eqb_refl, Hcnt. reflexivity.
Qed.

(* every tuple of a world satisfying the invariant: no session, or exactly one session which is
   also the registry owner — never sessions of both protocols, never a session that is not the owner *)
Lemma inv_exclusive w k : Inv w ->
  e2e_snapshot w k = (0%nat, 0%nat, None) \/
  e2e_snapshot w k = (1%nat, 0%nat, Some proto_ipoe) \/
  (exists n, e2e_snapshot w k = (0%nat, S n, Some proto_pppoe)).
Proof.
  intros [Hok Hsids Hip Hpp Hown]. unfold e2e_snapshot.
  destruct (m_get k (w_ipoe w)) as [s|] eqn:Ei.
  - destruct (Hip _ _ Ei) as [Es Er]. rewrite Er. right. left.
    rewrite count_pp_zero; [rewrite Es; reflexivity|].
    intros sid Hin. destruct (Hpp _ _ Hin) as [_ [Hr _]]. rewrite Er in Hr. inversion Hr as [E]. rewrite Es in E. inversion E.
  - destruct (reg_get (w_reg w) k) as [o|] eqn:Er.
    + destruct (Hown _ _ Er) as [H|H]; [congruence|]. right. right.
      destruct (Hpp _ _ H) as [_ [Hr _]]. rewrite Er in Hr. inversion Hr. cbn [o_proto ppo].
      destruct (count_pp k (w_pp_all w)) eqn:Ec; [exfalso; eapply in_count_pp; eauto | eauto].
    + left. rewrite count_pp_zero; [reflexivity|].
      intros sid Hin. destruct (Hpp _ _ Hin) as [_ [Hr _]]. congruence.
Qed.

Lemma run_inv ops : forall w, Inv w -> no_repadr Repaired w ops = true -> Inv (e2e_run Repaired w ops).
Proof.
  induction ops as [|o rest IH]; intros w I H; [exact I|].
  cbn [no_repadr] in H. apply andb_true_iff in H. destruct H as [H1 H2].
  cbn [e2e_run fold_left]. apply IH; [|exact H2].
  destruct o as [k|k].
  - apply (step_discover w k I).
  - apply Nat.eqb_eq in H1. apply (step_padr w k I H1).
Qed.

(* the end-to-end statement for the repaired variant *)
Lemma e2e_newest_survives ops o :
  no_repadr Repaired world0 (ops ++ [o]) = true ->
  let w := e2e_run Repaired world0 ops in
  let w' := e2e_step Repaired w o in
  (forall k, e2e_snapshot w' k = (0%nat, 0%nat, None) \/
             e2e_snapshot w' k = (1%nat, 0%nat, Some proto_ipoe) \/
             (exists n, e2e_snapshot w' k = (0%nat, S n, Some proto_pppoe))) /\
  match o with
  | EDiscover k => e2e_snapshot w' k = (1%nat, 0%nat, Some proto_ipoe)
  | EPadr k => e2e_snapshot w' k = (0%nat, 1%nat, Some proto_pppoe)
  end.
Proof.
  intros H w w'.
  assert (Hsplit : forall ops w0, no_repadr Repaired w0 (ops ++ [o]) = true ->
            no_repadr Repaired w0 ops = true /\ no_repadr Repaired (e2e_run Repaired w0 ops) [o] = true).
  { clear. induction ops as [|a r IH]; intros w0 H; [split; [reflexivity | exact H]|].
    cbn [app no_repadr] in H. apply andb_true_iff in H. destruct H as [H1 H2].
    destruct (IH _ H2) as [A B]. cbn [no_repadr e2e_run fold_left]. rewrite H1, A. split; [reflexivity | exact B]. }
  destruct (Hsplit ops world0 H) as [Ha Hb].
  pose proof (run_inv ops world0 inv0 Ha) as I. fold w in I, Hb.
  cbn [no_repadr] in Hb. rewrite andb_true_r in Hb.
  destruct o as [k|k].
  - destruct (step_discover w k I) as [I' S]. split; [intros k0; apply inv_exclusive; exact I' | exact S].
  - apply Nat.eqb_eq in Hb. destruct (step_padr w k I Hb) as [I' S].
    split; [intros k0; apply inv_exclusive; exact I' | exact S].
Qed.

(* before 94649ad: the displacing session was destroyed by its own eviction event, in both directions *)
Definition e2e_k : key := mkKey 100 10 [2; 170; 187; 204; 0; 1]%N.
Lemma e2e_defective_witness :
  e2e_snapshot (e2e_run Defective world0 [EDiscover e2e_k; EPadr e2e_k]) e2e_k = (0%nat, 0%nat, None) /\
  e2e_snapshot (e2e_run Defective world0 [EPadr e2e_k; EDiscover e2e_k]) e2e_k = (0%nat, 0%nat, None) /\
  e2e_snapshot (e2e_run Repaired world0 [EDiscover e2e_k; EPadr e2e_k]) e2e_k = (0%nat, 1%nat, Some proto_pppoe) /\
  e2e_snapshot (e2e_run Repaired world0 [EPadr e2e_k; EDiscover e2e_k]) e2e_k = (1%nat, 0%nat, Some proto_ipoe) /\
  no_repadr Repaired world0 [EDiscover e2e_k; EPadr e2e_k; EDiscover e2e_k; EPadr e2e_k] = true.
Proof. vm_compute. repeat split; reflexivity. Qed.
