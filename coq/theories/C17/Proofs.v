(* C17/Proofs.v — lemmas about the sequential model of the exclusivity table. *)
From OV Require Import Common.Base C17.Model.
From Coq Require Import ZifyBool ZifyNat ZifyN.

(* ---------- equality tests ---------- *)
Lemma bytes_eqb_eq a b : bytes_eqb a b = true <-> a = b.
Proof.
  revert b; induction a as [|x a IH]; destruct b as [|y b]; simpl; split; intros H;
    try discriminate; try reflexivity.
  - apply andb_true_iff in H. destruct H as [H1 H2]. apply N.eqb_eq in H1. apply IH in H2. congruence.
  - inversion H; subst. rewrite N.eqb_refl. simpl. apply IH. reflexivity.
Qed.
Lemma bytes_eqb_refl a : bytes_eqb a a = true.
Proof. apply bytes_eqb_eq. reflexivity. Qed.
Lemma bytes_eqb_sym a b : bytes_eqb a b = bytes_eqb b a.
Proof.
  destruct (bytes_eqb a b) eqn:E1, (bytes_eqb b a) eqn:E2; auto.
  - apply bytes_eqb_eq in E1. subst. rewrite bytes_eqb_refl in E2. discriminate.
  - apply bytes_eqb_eq in E2. subst. rewrite bytes_eqb_refl in E1. discriminate.
Qed.

Lemma key_eqb_eq a b : key_eqb a b = true <-> a = b.
Proof.
  destruct a as [s c m], b as [s' c' m']. unfold key_eqb. simpl.
  rewrite !andb_true_iff, !N.eqb_eq, bytes_eqb_eq. split.
  - intros [[? ?] ?]; congruence.
  - intros H; inversion H; auto.
Qed.
Lemma key_eqb_refl k : key_eqb k k = true.
Proof. apply key_eqb_eq. reflexivity. Qed.
Lemma key_eqb_neq a b : key_eqb a b = false <-> a <> b.
Proof.
  split.
  - intros H E. subst. rewrite key_eqb_refl in H. discriminate.
  - intros H. destruct (key_eqb a b) eqn:E; auto. apply key_eqb_eq in E. contradiction.
Qed.
Lemma key_eqb_sym a b : key_eqb a b = key_eqb b a.
Proof.
  destruct (key_eqb a b) eqn:E1, (key_eqb b a) eqn:E2; auto.
  - apply key_eqb_eq in E1. subst. rewrite key_eqb_refl in E2. discriminate.
  - apply key_eqb_eq in E2. subst. rewrite key_eqb_refl in E1. discriminate.
Qed.
Lemma key_eq_dec (a b : key) : {a = b} + {a <> b}.
Proof.
  destruct (key_eqb a b) eqn:E; [left; apply key_eqb_eq; auto | right; apply key_eqb_neq; auto].
Qed.

Lemma same_id_sym a b : same_id a b = same_id b a.
Proof. unfold same_id. rewrite (bytes_eqb_sym (o_proto a)), (bytes_eqb_sym (o_sid a)). reflexivity. Qed.
Lemma same_id_refl a : same_id a a = true.
Proof. unfold same_id. rewrite !bytes_eqb_refl. reflexivity. Qed.
Lemma same_id_trans a b c : same_id a b = true -> same_id b c = true -> same_id a c = true.
Proof.
  unfold same_id. rewrite !andb_true_iff, !bytes_eqb_eq. intros [-> ->] [-> ->]. auto.
Qed.
(* the Go condition of Release, literally, is the negation of same_id *)
Lemma release_cond cur ow :
  negb (bytes_eqb (o_proto cur) (o_proto ow)) || negb (bytes_eqb (o_sid cur) (o_sid ow)) = negb (same_id cur ow).
Proof. unfold same_id. rewrite negb_andb. reflexivity. Qed.

(* ---------- MakeTupleKey ---------- *)
Lemma pad6_length m : length (pad6 m) = 6%nat.
Proof.
  unfold pad6. rewrite firstn_length, app_length, repeat_length. lia.
Qed.
Lemma pad6_exact m : length m = 6%nat -> pad6 m = m.
Proof.
  intros H. unfold pad6. rewrite firstn_app, H, Nat.sub_diag.
  change (firstn 0 (repeat 0%N 6)) with (@nil N). rewrite app_nil_r.
  rewrite <- H. apply firstn_all.
Qed.

(* ---------- shardFor ---------- *)
Lemma shard_for_lt k : (shard_for k < 16)%N.
Proof.
  unfold shard_for. change 15%N with (N.ones 4). rewrite N.land_ones. apply N.mod_lt. discriminate.
Qed.
Lemma shard_idx_lt k : (shard_idx k < num_shards)%nat.
Proof. unfold shard_idx, num_shards. pose proof (shard_for_lt k). lia. Qed.

Lemma shl32_low x s n : (n < s)%N -> (n < 32)%N -> N.testbit (shl32 x s) n = false.
Proof.
  intros H1 H2. unfold shl32. change two32 with (2 ^ 32)%N.
  rewrite N.mod_pow2_bits_low by exact H2. apply N.shiftl_spec_low. exact H1.
Qed.

(* only the low nibbles of the C-VLAN and of MAC[3], MAC[5] select the shard *)
Lemma shard_for_low_bits k :
  shard_for k = N.land (N.lxor (N.lxor (k_cvlan k) (mb k 3)) (mb k 5)) 15.
Proof.
  unfold shard_for, shard_hash. apply N.bits_inj. intros n.
  rewrite !N.land_spec. destruct (N.ltb_spec n 4) as [Hlt|Hge].
  - rewrite !N.lxor_spec, !N.lor_spec.
    rewrite !shl32_low by lia. reflexivity.
  - change 15%N with (N.ones 4). rewrite N.ones_spec_high by exact Hge.
    rewrite !andb_false_r. reflexivity.
Qed.

(* ---------- association lists ---------- *)
Lemma m_get_del_same k m : m_get k (m_del k m) = None.
Proof.
  induction m as [|[k' v] r IH]; simpl; auto.
  destruct (key_eqb k k') eqn:E; auto. simpl. rewrite E. exact IH.
Qed.
Lemma m_get_del_other k k' m : k' <> k -> m_get k' (m_del k m) = m_get k' m.
Proof.
  intros Hne. induction m as [|[k2 v] r IH]; simpl; auto.
  destruct (key_eqb k k2) eqn:E.
  - apply key_eqb_eq in E. subst k2.
    assert (key_eqb k' k = false) as -> by (apply key_eqb_neq; auto). exact IH.
  - simpl. rewrite IH. reflexivity.
Qed.
Lemma m_get_set_same k v m : m_get k (m_set k v m) = Some v.
Proof. unfold m_set. simpl. rewrite key_eqb_refl. reflexivity. Qed.
Lemma m_get_set_other k k' v m : k' <> k -> m_get k' (m_set k v m) = m_get k' m.
Proof.
  intros Hne. unfold m_set. simpl.
  assert (key_eqb k' k = false) as -> by (apply key_eqb_neq; auto).
  apply m_get_del_other. exact Hne.
Qed.
Lemma in_m_del k k' v m : In (k', v) (m_del k m) -> In (k', v) m /\ k' <> k.
Proof.
  induction m as [|[k2 v2] r IH]; simpl; [tauto|].
  destruct (key_eqb k k2) eqn:E.
  - intros H. destruct (IH H). auto.
  - simpl. intros [H|H].
    + inversion H; subst. split; auto. apply key_eqb_neq in E. congruence.
    + destruct (IH H). auto.
Qed.
Lemma in_m_set k v k' v' m : In (k', v') (m_set k v m) -> (k' = k /\ v' = v) \/ (In (k', v') m /\ k' <> k).
Proof.
  unfold m_set. simpl. intros [H|H]; [inversion H; auto | right; eapply in_m_del; eauto].
Qed.
Lemma m_del_keys_nodup k m : NoDup (map fst m) -> NoDup (map fst (m_del k m)).
Proof.
  induction m as [|[k2 v2] r IH]; simpl; intros H; auto.
  apply NoDup_cons_iff in H. destruct H as [Hnot Hnd]. destruct (key_eqb k k2); auto. simpl. constructor; auto.
  intros Hin. apply in_map_iff in Hin. destruct Hin as [[k3 v3] [E Hin]]. simpl in E. subst k3.
  apply in_m_del in Hin. destruct Hin as [Hin _]. apply Hnot. apply in_map_iff. exists (k2, v3). auto.
Qed.
Lemma m_set_keys_nodup k v m : NoDup (map fst m) -> NoDup (map fst (m_set k v m)).
Proof.
  intros H. unfold m_set. simpl. constructor; [|apply m_del_keys_nodup; auto].
  intros Hin. apply in_map_iff in Hin. destruct Hin as [[k3 v3] [E Hin]]. simpl in E. subst k3.
  apply in_m_del in Hin. destruct Hin as [_ Hne]. congruence.
Qed.
Lemma m_get_in k v m : NoDup (map fst m) -> In (k, v) m -> m_get k m = Some v.
Proof.
  induction m as [|[k2 v2] r IH]; simpl; intros Hn Hin; [contradiction|].
  apply NoDup_cons_iff in Hn. destruct Hn as [Hnot Hnd]. destruct Hin as [H|H].
  - inversion H; subst. rewrite key_eqb_refl. reflexivity.
  - destruct (key_eqb k k2) eqn:E; [|auto].
    apply key_eqb_eq in E. subst k2. exfalso. apply Hnot. apply in_map_iff. exists (k, v). auto.
Qed.
Lemma m_get_some_in k v m : m_get k m = Some v -> In (k, v) m.
Proof.
  induction m as [|[k2 v2] r IH]; simpl; [discriminate|].
  destruct (key_eqb k k2) eqn:E; [|auto].
  apply key_eqb_eq in E. subst. intros H; inversion H; auto.
Qed.

(* ---------- one shard refines the flat specification ---------- *)
Definition shard_abs (s : shard) : spec := fun k => m_get k s.

Lemma shard_step_ret s o : snd (shard_step s o) = snd (spec_step (shard_abs s) o).
Proof.
  destruct o as [k ow|k ow|k ow|k]; unfold shard_abs; simpl.
  - destruct (m_get k s) as [p|]; [|reflexivity]. fold (same_id p ow). destruct (same_id p ow); reflexivity.
  - destruct (m_get k s) as [p|]; [|reflexivity]. rewrite release_cond. destruct (same_id p ow); reflexivity.
  - destruct (m_get k s) as [p|]; reflexivity.
  - destruct (m_get k s) as [p|]; reflexivity.
Qed.
Lemma shard_step_abs s o k' :
  shard_abs (fst (shard_step s o)) k' = fst (spec_step (shard_abs s) o) k'.
Proof.
  destruct o as [k ow|k ow|k ow|k]; unfold shard_abs, spec_set; simpl.
  - assert (E : fst (match m_get k s with
                     | Some p => if bytes_eqb (o_proto p) (o_proto ow) && bytes_eqb (o_sid p) (o_sid ow)
                                 then (m_set k ow s, RNil) else (m_set k ow s, ROwner p)
                     | None => (m_set k ow s, RNil) end) = m_set k ow s).
    { destruct (m_get k s); [destruct (_ && _)|]; reflexivity. }
    rewrite E. unfold spec_set. destruct (key_eqb k' k) eqn:Ek.
    + apply key_eqb_eq in Ek. subst. apply m_get_set_same.
    + apply m_get_set_other. apply key_eqb_neq. exact Ek.
  - destruct (m_get k s) as [p|] eqn:Eg; [|reflexivity]. rewrite release_cond.
    destruct (same_id p ow); simpl; [|reflexivity].
    unfold spec_set. destruct (key_eqb k' k) eqn:Ek.
    + apply key_eqb_eq in Ek. subst. apply m_get_del_same.
    + apply m_get_del_other. apply key_eqb_neq. exact Ek.
  - destruct (m_get k s); reflexivity.
  - destruct (m_get k s); reflexivity.
Qed.
Lemma shard_step_read_pure s o : op_is_read o = true -> fst (shard_step s o) = s.
Proof.
  destruct o as [k ow|k ow|k ow|k]; simpl; try discriminate; intros _; destruct (m_get k s); reflexivity.
Qed.
Lemma shard_step_keys_nodup s o : NoDup (map fst s) -> NoDup (map fst (fst (shard_step s o))).
Proof.
  intros H. destruct o as [k ow|k ow|k ow|k]; simpl.
  - destruct (m_get k s); [destruct (_ && _)|]; simpl; apply (m_set_keys_nodup k ow s H).
  - destruct (m_get k s); [destruct (_ || _)|]; simpl; auto. apply m_del_keys_nodup; auto.
  - destruct (m_get k s); auto.
  - destruct (m_get k s); auto.
Qed.
(* the step only ever adds the operation's own key *)
Lemma shard_step_in s o k v :
  In (k, v) (fst (shard_step s o)) -> In (k, v) s \/ k = op_key o.
Proof.
  destruct o as [k0 ow|k0 ow|k0 ow|k0]; simpl.
  - assert (E : fst (match m_get k0 s with
                     | Some p => if bytes_eqb (o_proto p) (o_proto ow) && bytes_eqb (o_sid p) (o_sid ow)
                                 then (m_set k0 ow s, RNil) else (m_set k0 ow s, ROwner p)
                     | None => (m_set k0 ow s, RNil) end) = m_set k0 ow s).
    { destruct (m_get k0 s); [destruct (_ && _)|]; reflexivity. }
    rewrite E. intros H. apply in_m_set in H. tauto.
  - destruct (m_get k0 s); [destruct (_ || _)|]; simpl; auto.
    intros H. apply in_m_del in H. tauto.
  - destruct (m_get k0 s); auto.
  - destruct (m_get k0 s); auto.
Qed.

(* ---------- set_nth ---------- *)
Lemma set_nth_length {A} i (x : A) l : length (set_nth i x l) = length l.
Proof. revert i; induction l as [|h t IH]; destruct i; simpl; auto. Qed.
Lemma nth_set_nth_same {A} i (x d : A) l : (i < length l)%nat -> nth i (set_nth i x l) d = x.
Proof.
  revert i; induction l as [|h t IH]; destruct i; simpl; intros H; try lia; auto. apply IH. lia.
Qed.
Lemma nth_set_nth_other {A} i j (x d : A) l : i <> j -> nth j (set_nth i x l) d = nth j l d.
Proof.
  revert i j; induction l as [|h t IH]; destruct i, j; simpl; intros H; auto; try congruence.
Qed.

(* ---------- the registry refines the flat specification ---------- *)
Definition reg_ok (r : registry) : Prop := length r = num_shards.

Lemma new_registry_ok : reg_ok new_registry.
Proof. reflexivity. Qed.
Lemma reg_step_ok r o : reg_ok r -> reg_ok (fst (reg_step r o)).
Proof. unfold reg_ok, reg_step. simpl. rewrite set_nth_length. auto. Qed.

Lemma reg_get_new k : reg_get new_registry k = None.
Proof.
  unfold reg_get, new_registry. rewrite nth_repeat. reflexivity.
Qed.

Lemma reg_step_ret r o : snd (reg_step r o) = snd (spec_step (reg_get r) o).
Proof.
  unfold reg_step. simpl. rewrite shard_step_ret.
  destruct o as [k ow|k ow|k ow|k]; reflexivity.
Qed.

Lemma spec_step_local s s' o k' : s (op_key o) = s' (op_key o) -> s k' = s' k' ->
  fst (spec_step s o) k' = fst (spec_step s' o) k'.
Proof.
  destruct o as [k ow|k ow|k ow|k]; simpl; intros H1 H2; unfold spec_set; auto.
  - rewrite H2. reflexivity.
  - rewrite <- H1. destruct (s k) as [cur|]; [destruct (same_id cur ow)|]; unfold spec_set; rewrite ?H2; auto.
Qed.
Lemma spec_step_frame s o k' : k' <> op_key o -> fst (spec_step s o) k' = s k'.
Proof.
  intros Hne. destruct o as [k ow|k ow|k ow|k]; simpl in *; unfold spec_set; auto.
  - assert (key_eqb k' k = false) as -> by (apply key_eqb_neq; auto). reflexivity.
  - destruct (s k) as [cur|]; [destruct (same_id cur ow)|]; unfold spec_set; auto.
    assert (key_eqb k' k = false) as -> by (apply key_eqb_neq; auto). reflexivity.
Qed.

Lemma reg_step_get r o k' : reg_ok r ->
  reg_get (fst (reg_step r o)) k' = fst (spec_step (reg_get r) o) k'.
Proof.
  intros Hok. unfold reg_step. simpl. unfold reg_get at 1.
  destruct (Nat.eq_dec (shard_idx (op_key o)) (shard_idx k')) as [E|N].
  - rewrite <- E. rewrite nth_set_nth_same by (rewrite Hok; apply shard_idx_lt).
    fold (shard_abs (fst (shard_step (nth (shard_idx (op_key o)) r []) o)) k').
    rewrite shard_step_abs. apply spec_step_local.
    + reflexivity.
    + unfold shard_abs, reg_get. rewrite E. reflexivity.
  - rewrite nth_set_nth_other by exact N.
    rewrite spec_step_frame; [reflexivity|]. intros ->. apply N. reflexivity.
Qed.

(* pointwise-equal specification states give equal results and pointwise-equal successors *)
Lemma spec_step_ext s s' o : (forall k, s k = s' k) ->
  snd (spec_step s o) = snd (spec_step s' o) /\ forall k, fst (spec_step s o) k = fst (spec_step s' o) k.
Proof.
  intros H. destruct o as [k ow|k ow|k ow|k]; simpl; rewrite <- ?(H k); split; auto; intros k2; unfold spec_set.
  - rewrite H. reflexivity.
  - destruct (s k) as [cur|]; [destruct (same_id cur ow)|]; unfold spec_set; rewrite ?H; auto.
Qed.

Lemma reg_run_cons r o rest :
  reg_run r (o :: rest) =
  (fst (reg_run (fst (reg_step r o)) rest), snd (reg_step r o) :: snd (reg_run (fst (reg_step r o)) rest)).
Proof. cbn [reg_run]. destruct (reg_step r o) as [r1 x]. cbn [fst snd]. destruct (reg_run r1 rest). reflexivity. Qed.
Lemma spec_run_cons s o rest :
  spec_run s (o :: rest) =
  (fst (spec_run (fst (spec_step s o)) rest), snd (spec_step s o) :: snd (spec_run (fst (spec_step s o)) rest)).
Proof. cbn [spec_run]. destruct (spec_step s o) as [r1 x]. cbn [fst snd]. destruct (spec_run r1 rest). reflexivity. Qed.

Lemma reg_run_ok r ops : reg_ok r -> reg_ok (fst (reg_run r ops)).
Proof.
  revert r; induction ops as [|o rest IH]; intros r H; [exact H|].
  rewrite reg_run_cons. cbn [fst snd]. apply IH. apply reg_step_ok. exact H.
Qed.

Lemma reg_run_refines ops : forall r s, reg_ok r -> (forall k, reg_get r k = s k) ->
  snd (reg_run r ops) = snd (spec_run s ops) /\
  forall k, reg_get (fst (reg_run r ops)) k = fst (spec_run s ops) k.
Proof.
  induction ops as [|o rest IH]; intros r s Hok Hs; [simpl; auto|].
  rewrite reg_run_cons, spec_run_cons. cbn [fst snd].
  assert (Hx : snd (reg_step r o) = snd (spec_step s o)).
  { rewrite reg_step_ret. apply spec_step_ext. exact Hs. }
  assert (H1 : forall k, reg_get (fst (reg_step r o)) k = fst (spec_step s o) k).
  { intros k. rewrite reg_step_get by exact Hok. apply spec_step_ext. exact Hs. }
  destruct (IH _ _ (reg_step_ok r o Hok) H1) as [A B].
  rewrite Hx, A. auto.
Qed.

Lemma refines_spec ops :
  snd (reg_run new_registry ops) = snd (spec_run spec_empty ops) /\
  forall k, reg_get (fst (reg_run new_registry ops)) k = fst (spec_run spec_empty ops) k.
Proof. apply reg_run_refines; [apply new_registry_ok | apply reg_get_new]. Qed.

(* ---------- representation invariant: each tuple stored at most once, in its shard ---------- *)
Definition reg_wf (r : registry) : Prop :=
  reg_ok r /\
  forall i, NoDup (map fst (nth i r [])) /\ forall k v, In (k, v) (nth i r []) -> shard_idx k = i.

Lemma new_registry_wf : reg_wf new_registry.
Proof.
  split; [reflexivity|]. intros i. unfold new_registry. rewrite nth_repeat.
  simpl. split; [constructor | tauto].
Qed.
Lemma reg_step_wf r o : reg_wf r -> reg_wf (fst (reg_step r o)).
Proof.
  intros [Hok Hsh]. split; [apply reg_step_ok; exact Hok|].
  intros i. unfold reg_step. simpl.
  destruct (Nat.eq_dec (shard_idx (op_key o)) i) as [E|N].
  - subst i. rewrite nth_set_nth_same by (rewrite Hok; apply shard_idx_lt).
    destruct (Hsh (shard_idx (op_key o))) as [Hn Hin]. split.
    + apply shard_step_keys_nodup. exact Hn.
    + intros k v H. apply shard_step_in in H. destruct H as [H|H]; [eauto | subst; reflexivity].
  - rewrite nth_set_nth_other by exact N. apply Hsh.
Qed.
Lemma reg_run_wf r ops : reg_wf r -> reg_wf (fst (reg_run r ops)).
Proof.
  revert r; induction ops as [|o rest IH]; intros r H; [exact H|].
  rewrite reg_run_cons. cbn [fst snd]. apply IH. apply reg_step_wf. exact H.
Qed.

Lemma stored_once r : reg_wf r ->
  forall k i j v w, In (k, v) (nth i r []) -> In (k, w) (nth j r []) ->
                    i = j /\ v = w /\ reg_get r k = Some v.
Proof.
  intros [Hok Hsh] k i j v w Hi Hj.
  destruct (Hsh i) as [Hni Hii]. destruct (Hsh j) as [Hnj Hij].
  pose proof (Hii _ _ Hi) as Ei. pose proof (Hij _ _ Hj) as Ej.
  assert (Eij : i = j) by congruence. split; [exact Eij|].
  rewrite <- Eij in Hj. clear Eij Ej Hij Hnj j.
  pose proof (m_get_in _ _ _ Hni Hi) as G1. pose proof (m_get_in _ _ _ Hni Hj) as G2.
  split; [congruence|]. unfold reg_get. rewrite Ei. exact G1.
Qed.

(* ---------- observations ---------- *)
Definition is_owner (r : registry) (k : key) (o : owner) : bool :=
  match snd (reg_step r (OIsOwner k o)) with RBool b => b | _ => false end.
Definition lookup (r : registry) (k : key) : option owner :=
  match snd (reg_step r (OLookup k)) with ROwner o => Some o | _ => None end.
Definition claim (r : registry) (k : key) (o : owner) : registry * option owner :=
  (fst (reg_step r (OClaim k o)),
   match snd (reg_step r (OClaim k o)) with ROwner p => Some p | _ => None end).
Definition release (r : registry) (k : key) (o : owner) : registry := fst (reg_step r (ORelease k o)).

Lemma lookup_get r k : lookup r k = reg_get r k.
Proof. unfold lookup. rewrite reg_step_ret. simpl. destruct (reg_get r k); reflexivity. Qed.
Lemma is_owner_get r k o :
  is_owner r k o = match reg_get r k with Some cur => same_id cur o | None => false end.
Proof. unfold is_owner. rewrite reg_step_ret. reflexivity. Qed.
Lemma claim_ret r k o :
  snd (claim r k o) = match reg_get r k with
                      | Some p => if same_id p o then None else Some p
                      | None => None end.
Proof.
  unfold claim. cbn [fst snd]. rewrite reg_step_ret. simpl.
  destruct (reg_get r k) as [p|]; [destruct (same_id p o)|]; reflexivity.
Qed.
Lemma claim_get r k o k' : reg_ok r ->
  reg_get (fst (claim r k o)) k' = if key_eqb k' k then Some o else reg_get r k'.
Proof. intros H. unfold claim. cbn [fst snd]. rewrite reg_step_get by exact H. reflexivity. Qed.
Lemma release_get r k o k' : reg_ok r ->
  reg_get (release r k o) k' =
  if key_eqb k' k && is_owner r k o then None else reg_get r k'.
Proof.
  intros H. unfold release. rewrite reg_step_get by exact H. rewrite is_owner_get. simpl.
  destruct (reg_get r k) as [cur|] eqn:E.
  - destruct (same_id cur o); unfold spec_set.
    + destruct (key_eqb k' k); reflexivity.
    + rewrite andb_false_r. reflexivity.
  - rewrite andb_false_r. reflexivity.
Qed.
Lemma read_ops_keep_state r o : reg_ok r -> op_is_read o = true -> forall k, reg_get (fst (reg_step r o)) k = reg_get r k.
Proof.
  intros H Hr k. rewrite reg_step_get by exact H. destruct o; simpl in *; try discriminate; reflexivity.
Qed.

(* ---------- single owner ---------- *)
Lemma single_owner_any r k o1 o2 :
  is_owner r k o1 = true -> is_owner r k o2 = true -> same_id o1 o2 = true.
Proof.
  rewrite !is_owner_get. destruct (reg_get r k) as [cur|]; [|discriminate].
  intros H1 H2. rewrite same_id_sym in H1. eapply same_id_trans; eauto.
Qed.

Lemma single_owner ops :
  let r := fst (reg_run new_registry ops) in
  (forall k i j v w, In (k, v) (nth i r []) -> In (k, w) (nth j r []) -> i = j /\ v = w /\ lookup r k = Some v) /\
  (forall k o1 o2, is_owner r k o1 = true -> is_owner r k o2 = true -> same_id o1 o2 = true) /\
  (forall k o, is_owner r k o = true <-> exists cur, lookup r k = Some cur /\ same_id cur o = true).
Proof.
  intros r. split; [|split].
  - intros k i j v w Hi Hj. rewrite lookup_get.
    eapply stored_once; eauto. apply reg_run_wf. apply new_registry_wf.
  - intros k o1 o2. apply single_owner_any.
  - intros k o. rewrite is_owner_get, lookup_get. destruct (reg_get r k) as [cur|].
    + split; [intros H; exists cur; auto | intros [c [E H]]; inversion E; subst; auto].
    + split; [discriminate | intros [c [E _]]; discriminate].
Qed.

(* ---------- displaced owner reported exactly once ---------- *)
Definition claim_by (k : key) (p : owner) (o : op) : bool :=
  match o with OClaim k' o' => key_eqb k' k && same_id o' p | _ => false end.
Definition reports (k : key) (p : owner) (o : op) (x : ret) : bool :=
  match o, x with OClaim k' _, ROwner q => key_eqb k' k && same_id q p | _, _ => false end.

Definition not_owner (r : registry) (k : key) (p : owner) : Prop :=
  forall cur, reg_get r k = Some cur -> same_id cur p = false.

Lemma not_owner_step r o k p : reg_ok r -> not_owner r k p -> claim_by k p o = false ->
  not_owner (fst (reg_step r o)) k p /\ reports k p o (snd (reg_step r o)) = false.
Proof.
  intros Hok Hn Hc. split.
  - intros cur. rewrite reg_step_get by exact Hok.
    destruct o as [k0 ow|k0 ow|k0 ow|k0]; simpl in *; unfold spec_set.
    + destruct (key_eqb k k0) eqn:Ek; [|apply Hn].
      intros H; inversion H; subst. apply key_eqb_eq in Ek. subst k0.
      rewrite key_eqb_refl in Hc. simpl in Hc. exact Hc.
    + destruct (reg_get r k0) as [c0|]; [|apply Hn].
      destruct (same_id c0 ow); [|apply Hn]. unfold spec_set.
      destruct (key_eqb k k0); [discriminate | apply Hn].
    + apply Hn.
    + apply Hn.
  - rewrite reg_step_ret. destruct o as [k0 ow|k0 ow|k0 ow|k0]; simpl; auto.
    + destruct (reg_get r k0) as [q|] eqn:Eq; [|reflexivity].
      destruct (same_id q ow); [reflexivity|]. simpl.
      destruct (key_eqb k0 k) eqn:Ek; [|reflexivity]. apply key_eqb_eq in Ek. subst k0.
      simpl. apply Hn. exact Eq.
Qed.

Lemma not_owner_run ops : forall r k p, reg_ok r -> not_owner r k p ->
  forallb (fun o => negb (claim_by k p o)) ops = true ->
  forallb (fun ox => negb (reports k p (fst ox) (snd ox))) (combine ops (snd (reg_run r ops))) = true.
Proof.
  induction ops as [|o rest IH]; intros r k p Hok Hn Hc; [reflexivity|].
  cbn [forallb] in Hc. apply andb_true_iff in Hc. destruct Hc as [Hc1 Hc2]. apply negb_true_iff in Hc1.
  destruct (not_owner_step r o k p Hok Hn Hc1) as [Hn1 Hr1].
  rewrite reg_run_cons. cbn [snd combine forallb fst]. rewrite Hr1. cbn [negb andb].
  apply IH; auto. apply reg_step_ok; auto.
Qed.

Lemma displaced_reported_once pre k o p post :
  let r1 := fst (reg_run new_registry pre) in
  let r2 := fst (reg_step r1 (OClaim k o)) in
  snd (reg_step r1 (OClaim k o)) = ROwner p ->
  lookup r1 k = Some p /\ same_id p o = false /\
  lookup r2 k = Some o /\ is_owner r2 k p = false /\
  (forallb (fun x => negb (claim_by k p x)) post = true ->
   forallb (fun ox => negb (reports k p (fst ox) (snd ox))) (combine post (snd (reg_run r2 post))) = true).
Proof.
  intros r1 r2 H.
  assert (Hok1 : reg_ok r1) by (apply reg_run_ok; apply new_registry_ok).
  assert (Hok2 : reg_ok r2) by (apply reg_step_ok; exact Hok1).
  rewrite reg_step_ret in H. simpl in H.
  destruct (reg_get r1 k) as [q|] eqn:Eq; [|discriminate].
  destruct (same_id q o) eqn:Es; [discriminate|]. inversion H; subst q.
  assert (G2 : reg_get r2 k = Some o).
  { unfold r2. rewrite reg_step_get by exact Hok1. simpl. unfold spec_set. rewrite key_eqb_refl. reflexivity. }
  assert (Hno : not_owner r2 k p).
  { intros cur E. rewrite G2 in E. inversion E; subst. rewrite same_id_sym. exact Es. }
  rewrite !lookup_get, is_owner_get, G2, Eq.
  repeat split; auto.
  intros Hc. apply not_owner_run; auto.
Qed.

(* a claim reports the previous owner if and only if there was one with another identity *)
Lemma claim_reports_iff r k o p :
  snd (reg_step r (OClaim k o)) = ROwner p <-> (lookup r k = Some p /\ same_id p o = false).
Proof.
  rewrite reg_step_ret, lookup_get. simpl. destruct (reg_get r k) as [q|].
  - destruct (same_id q o) eqn:E; split.
    + discriminate.
    + intros [H1 H2]. inversion H1; subst. congruence.
    + intros H; inversion H; subst. auto.
    + intros [H1 H2]. inversion H1; subst. reflexivity.
  - split; [discriminate | intros [H _]; discriminate].
Qed.

(* ---------- tenure accounting: every tenure is ended exactly once ---------- *)
(* per key: tenures started = tenures ended by a displacement report + tenures ended by an
   effective release + (1 if the tuple is owned now) *)
Fixpoint tenure_counts (r : registry) (k : key) (ops : list op) : (nat * nat * nat) * registry :=
  match ops with
  | [] => ((0, 0, 0)%nat, r)
  | o :: rest =>
      let started := match o with
                     | OClaim k' ow => if key_eqb k' k then
                                         match lookup r k with
                                         | Some cur => if same_id cur ow then 0 else 1
                                         | None => 1 end
                                       else 0
                     | _ => 0 end%nat in
      let reported := match o, snd (reg_step r o) with
                      | OClaim k' _, ROwner _ => if key_eqb k' k then 1 else 0
                      | _, _ => 0 end%nat in
      let released := match o with
                      | ORelease k' ow => if key_eqb k' k && is_owner r k ow then 1 else 0
                      | _ => 0 end%nat in
      let '((s, p, d), r') := tenure_counts (fst (reg_step r o)) k rest in
      ((started + s, reported + p, released + d)%nat, r')
  end.
Definition owned_now (r : registry) (k : key) : nat := match lookup r k with Some _ => 1 | None => 0 end.

Lemma tenure_conservation ops : forall r k, reg_ok r ->
  let '((s, p, d), r') := tenure_counts r k ops in
  r' = fst (reg_run r ops) /\ (owned_now r k + s = p + d + owned_now r' k)%nat.
Proof.
  induction ops as [|o rest IH]; intros r k Hok; cbn [tenure_counts reg_run].
  - split; [reflexivity | lia].
  - pose proof (reg_step_ok r o Hok) as Hok1.
    specialize (IH (fst (reg_step r o)) k Hok1).
    destruct (tenure_counts (fst (reg_step r o)) k rest) as [[[s p] d] r'] eqn:Et.
    destruct IH as [IH1 IH2]. split.
    + destruct (reg_step r o) as [r1 x]. simpl in *. destruct (reg_run r1 rest). simpl in *. exact IH1.
    + assert (Hstep : (owned_now r k +
                 match o with
                 | OClaim k' ow => if key_eqb k' k then match lookup r k with
                                     | Some cur => if same_id cur ow then 0 else 1 | None => 1 end else 0
                 | _ => 0 end =
                 match o, snd (reg_step r o) with
                 | OClaim k' _, ROwner _ => if key_eqb k' k then 1 else 0 | _, _ => 0 end +
                 match o with ORelease k' ow => if key_eqb k' k && is_owner r k ow then 1 else 0 | _ => 0 end +
                 owned_now (fst (reg_step r o)) k)%nat).
      { unfold owned_now.
        destruct o as [k0 ow|k0 ow|k0 ow|k0];
          rewrite ?lookup_get, ?is_owner_get, ?reg_step_ret, ?reg_step_get by exact Hok;
          simpl; unfold spec_set.
        - rewrite (key_eqb_sym k k0).
          destruct (key_eqb k0 k) eqn:Ek.
          + apply key_eqb_eq in Ek. subst k0.
            destruct (reg_get r k) as [cur|]; [destruct (same_id cur ow)|]; simpl; lia.
          + destruct (reg_get r k0) as [c0|]; [destruct (same_id c0 ow)|]; simpl;
              destruct (reg_get r k); lia.
        - destruct (key_eqb k0 k) eqn:Ek.
          + apply key_eqb_eq in Ek. subst k0.
            destruct (reg_get r k) as [cur|] eqn:Eg; [destruct (same_id cur ow)|]; simpl; unfold spec_set;
              rewrite ?key_eqb_refl, ?Eg; simpl; lia.
          + simpl. destruct (reg_get r k0) as [c0|]; [destruct (same_id c0 ow)|]; unfold spec_set;
              rewrite ?(key_eqb_sym k k0), ?Ek; destruct (reg_get r k); lia.
        - destruct (reg_get r k); lia.
        - destruct (reg_get r k0); destruct (reg_get r k); lia. }
      destruct o; lia.
Qed.

(* ---------- stale release ---------- *)
Lemma stale_release_harmless ops k o :
  let r := fst (reg_run new_registry ops) in
  is_owner r k o = false -> forall k', lookup (release r k o) k' = lookup r k'.
Proof.
  intros r H k'. rewrite !lookup_get, release_get by (apply reg_run_ok; apply new_registry_ok).
  rewrite H, andb_false_r. reflexivity.
Qed.
Lemma release_by_owner ops k o :
  let r := fst (reg_run new_registry ops) in
  is_owner r k o = true ->
  lookup (release r k o) k = None /\ forall k', k' <> k -> lookup (release r k o) k' = lookup r k'.
Proof.
  intros r H. split; [|intros k' Hne];
    rewrite !lookup_get, release_get by (apply reg_run_ok; apply new_registry_ok); rewrite H.
  - rewrite key_eqb_refl. reflexivity.
  - assert (key_eqb k' k = false) as -> by (apply key_eqb_neq; auto). reflexivity.
Qed.
Lemma release_only_own_key r k o k' : reg_ok r -> k' <> k -> lookup (release r k o) k' = lookup r k'.
Proof.
  intros Hok Hne. rewrite !lookup_get, release_get by exact Hok.
  assert (key_eqb k' k = false) as -> by (apply key_eqb_neq; auto). reflexivity.
Qed.
(* the displaced session's late release leaves the displacing session in place *)
Lemma displaced_release_keeps_new_owner pre k o p :
  let r1 := fst (reg_run new_registry pre) in
  let r2 := fst (reg_step r1 (OClaim k o)) in
  snd (reg_step r1 (OClaim k o)) = ROwner p ->
  forall p', same_id p' p = true -> lookup (release r2 k p') k = Some o.
Proof.
  intros r1 r2 H p' Hp.
  destruct (displaced_reported_once pre k o p [] H) as [_ [Hs [L2 [Hi _]]]].
  fold r1 in L2, Hi. fold r2 in L2, Hi.
  assert (Hok2 : reg_ok r2) by (apply reg_step_ok; apply reg_run_ok; apply new_registry_ok).
  rewrite lookup_get, release_get by exact Hok2. rewrite key_eqb_refl. simpl.
  assert (is_owner r2 k p' = false) as ->.
  { assert (G2 : reg_get r2 k = Some o) by (rewrite <- lookup_get; exact L2).
    rewrite is_owner_get in Hi |- *. rewrite G2 in Hi |- *.
    destruct (same_id o p') eqn:E; [|reflexivity].
    rewrite <- Hi. symmetry. eapply same_id_trans; eauto. }
  rewrite <- lookup_get. exact L2.
Qed.

(* ---------- callers: eviction events ---------- *)
Lemma component_claim_events self r k sid :
  snd (component_claim self r k sid) =
  match lookup r k with
  | Some prev => if bytes_eqb (o_proto prev) self then [] else [o_sid prev]
  | None => []
  end.
Proof.
  unfold component_claim.
  pose proof (reg_step_ret r (OClaim k (mkOwner self sid k))) as Hr.
  destruct (reg_step r (OClaim k (mkOwner self sid k))) as [r' res]. cbn [snd] in *. subst res.
  rewrite lookup_get. simpl. destruct (reg_get r k) as [prev|]; [|reflexivity].
  unfold same_id. simpl. destruct (bytes_eqb (o_proto prev) self) eqn:Ep; simpl.
  - destruct (bytes_eqb (o_sid prev) sid); simpl; [reflexivity|]. rewrite Ep. reflexivity.
  - rewrite Ep. reflexivity.
Qed.
Lemma component_claim_state self r k sid :
  fst (component_claim self r k sid) = fst (reg_step r (OClaim k (mkOwner self sid k))).
Proof.
  unfold component_claim. destruct (reg_step r (OClaim k (mkOwner self sid k))). reflexivity.
Qed.

Lemma tenure_conservation_new ops k :
  let '((s, p, d), r') := tenure_counts new_registry k ops in
  r' = fst (reg_run new_registry ops) /\ (s = p + d + owned_now r' k)%nat.
Proof.
  pose proof (tenure_conservation ops new_registry k new_registry_ok) as H.
  destruct (tenure_counts new_registry k ops) as [[[s p] d] r'].
  destruct H as [H1 H2]. split; [exact H1|].
  unfold owned_now in H2 at 1. rewrite lookup_get, reg_get_new in H2. exact H2.
Qed.

Lemma caller_claim_events self mixed r s c m sid :
  let k := make_tuple_key s c m in
  snd (caller_claim self mixed r s c m sid) =
    (if mixed then
       match lookup r k with
       | Some prev => if bytes_eqb (o_proto prev) self then [] else [(o_sid prev, k)]
       | None => []
       end
     else []) /\
  fst (caller_claim self mixed r s c m sid) =
    (if mixed then fst (reg_step r (OClaim k (mkOwner self sid k))) else r).
Proof.
  intros k. unfold caller_claim, caller_claim_v, site_claim. fold k. destruct mixed; [|split; reflexivity].
  pose proof (component_claim_events self r k sid) as E.
  pose proof (component_claim_state self r k sid) as S.
  destruct (component_claim self r k sid) as [r' ev]. cbn [fst snd] in *. subst. split; [|reflexivity].
  destruct (lookup r k) as [prev|]; [|reflexivity].
  destruct (bytes_eqb (o_proto prev) self); reflexivity.
Qed.

(* ---------- legal sequential histories as lists of (operation, result) ---------- *)
Fixpoint legal_from (r : registry) (l : list (op * ret)) : Prop :=
  match l with
  | [] => True
  | (o, x) :: t => snd (reg_step r o) = x /\ legal_from (fst (reg_step r o)) t
  end.
Definition state_after (r : registry) (l : list (op * ret)) : registry := fst (reg_run r (map fst l)).

Lemma legal_from_run l : forall r, legal_from r l -> snd (reg_run r (map fst l)) = map snd l.
Proof.
  induction l as [|[o x] t IH]; intros r H; [reflexivity|].
  cbn [map fst snd]. rewrite reg_run_cons. cbn [snd]. destruct H as [H1 H2]. rewrite H1, (IH _ H2). reflexivity.
Qed.
Lemma legal_from_app a b : forall r,
  legal_from r (a ++ b) <-> legal_from r a /\ legal_from (state_after r a) b.
Proof.
  induction a as [|[o x] t IH]; intros r; unfold state_after in *.
  - simpl. tauto.
  - cbn [app legal_from map fst]. rewrite reg_run_cons. cbn [fst]. rewrite IH. tauto.
Qed.
Lemma state_after_ok r l : reg_ok r -> reg_ok (state_after r l).
Proof. apply reg_run_ok. Qed.
Lemma combine_map_fst_snd {A B} (l : list (A * B)) : combine (map fst l) (map snd l) = l.
Proof. induction l as [|[a b] t IH]; simpl; [|rewrite IH]; reflexivity. Qed.

(* In a legal history a session is reported as displaced from a tuple twice only if it claimed the
   tuple again in between: every displacement is reported once. *)
Lemma legal_reported_once pre k o1 p1 mid o2 p2 post :
  legal_from new_registry (pre ++ (OClaim k o1, ROwner p1) :: mid ++ (OClaim k o2, ROwner p2) :: post) ->
  same_id p2 p1 = true ->
  exists ox, In ox mid /\ claim_by k p1 (fst ox) = true.
Proof.
  intros HL Hs.
  apply legal_from_app in HL. destruct HL as [_ HL]. cbn [legal_from] in HL. destruct HL as [H1 HL].
  change (mid ++ (OClaim k o2, ROwner p2) :: post) with (mid ++ [(OClaim k o2, ROwner p2)] ++ post) in HL.
  rewrite app_assoc in HL. apply legal_from_app in HL. destruct HL as [HL _].
  set (r1 := state_after new_registry pre) in *.
  set (r2 := fst (reg_step r1 (OClaim k o1))) in *.
  set (l := mid ++ [(OClaim k o2, ROwner p2)]) in *.
  destruct (existsb (fun ox => claim_by k p1 (fst ox)) mid) eqn:Ex.
  { apply existsb_exists in Ex. exact Ex. }
  exfalso.
  (* the second reporting claim is not a claim by p1's session *)
  assert (Hc2 : claim_by k p1 (OClaim k o2) = false).
  { simpl. rewrite key_eqb_refl. simpl. destruct (same_id o2 p1) eqn:E; [|reflexivity]. exfalso.
    pose proof HL as HL2. unfold l in HL2. apply legal_from_app in HL2. destruct HL2 as [_ HL2].
    cbn [legal_from] in HL2. destruct HL2 as [HL2 _].
    apply claim_reports_iff in HL2. destruct HL2 as [_ HL2].
    assert (same_id p2 o2 = true).
    { eapply same_id_trans; [exact Hs|]. rewrite same_id_sym. exact E. }
    congruence. }
  assert (Hall : forallb (fun x => negb (claim_by k p1 x)) (map fst l) = true).
  { unfold l. rewrite map_app, forallb_app. cbn [map fst forallb]. rewrite Hc2. simpl. rewrite andb_true_r.
    rewrite forallb_forall. intros x Hx. apply in_map_iff in Hx. destruct Hx as [ox [<- Hin]].
    apply negb_true_iff.
    destruct (claim_by k p1 (fst ox)) eqn:E; [|reflexivity].
    assert (existsb (fun ox => claim_by k p1 (fst ox)) mid = true) by (apply existsb_exists; eauto). congruence. }
  destruct (displaced_reported_once (map fst pre) k o1 p1 (map fst l) H1) as [_ [_ [_ [_ Hrep]]]].
  specialize (Hrep Hall). unfold r2, r1, state_after in HL.
  rewrite (legal_from_run l _ HL), combine_map_fst_snd in Hrep.
  rewrite forallb_forall in Hrep.
  specialize (Hrep (OClaim k o2, ROwner p2)).
  assert (In (OClaim k o2, ROwner p2) l) by (unfold l; apply in_or_app; right; left; reflexivity).
  specialize (Hrep H). simpl in Hrep. rewrite key_eqb_refl, Hs in Hrep. discriminate.
Qed.

(* ... and every displacement IS reported, truthfully: a claim in a legal history returns p exactly
   when p was the stored owner of the tuple at that point and is another session *)
Lemma legal_claim_reports pre k o x post :
  legal_from new_registry (pre ++ (OClaim k o, x) :: post) ->
  x = match lookup (state_after new_registry pre) k with
      | Some p => if same_id p o then RNil else ROwner p
      | None => RNil
      end.
Proof.
  intros HL. apply legal_from_app in HL. destruct HL as [_ HL]. cbn [legal_from] in HL. destruct HL as [H1 _].
  rewrite <- H1, reg_step_ret, lookup_get. reflexivity.
Qed.

(* ---------- call sites are ONE registry operation ---------- *)
Definition site_events (self : bytes) (x : ret) : list bytes :=
  match x with
  | ROwner prev => if negb (bytes_eqb (o_proto prev) self) then [o_sid prev] else []
  | _ => []
  end.
Lemma component_claim_one_step self r k sid :
  component_claim self r k sid =
  (fst (reg_step r (OClaim k (mkOwner self sid k))), site_events self (snd (reg_step r (OClaim k (mkOwner self sid k))))).
Proof. unfold component_claim, site_events. destruct (reg_step r (OClaim k (mkOwner self sid k))) as [r' x]. reflexivity. Qed.

(* the shape that is NOT allowed: decide from a Lookup taken before the Claim.  [mid] is whatever other
   parties do to the registry between the two calls. *)
Definition lookup_then_claim (self : bytes) (mid : registry -> registry) (r : registry) (k : key) (sid : bytes)
  : registry * list bytes :=
  let seen := snd (reg_step r (OLookup k)) in
  let r1 := mid r in
  (fst (reg_step r1 (OClaim k (mkOwner self sid k))), site_events self seen).

Lemma lookup_then_claim_sequentially_same self r k sid :
  lookup_then_claim self (fun x => x) r k sid = component_claim self r k sid.
Proof.
  rewrite component_claim_one_step. unfold lookup_then_claim. f_equal.
  rewrite !reg_step_ret. simpl. unfold site_events.
  destruct (reg_get r k) as [p|]; [|reflexivity].
  unfold same_id. simpl. destruct (bytes_eqb (o_proto p) self) eqn:E; simpl; [|rewrite E; reflexivity].
  destruct (bytes_eqb (o_sid p) sid); simpl; [reflexivity | rewrite E; reflexivity].
Qed.

Definition wk : key := mkKey 100 10 [2; 170; 187; 204; 0; 1]%N.
Definition wpp : owner := mkOwner proto_pppoe [112; 57]%N wk.
(* with a PPPoE claim landing between the two calls, the PPPoE session is displaced and nothing is
   published; no order of the two atomic operations gives that outcome *)
Lemma lookup_then_claim_not_atomic :
  let interloper := fun r => fst (reg_step r (OClaim wk wpp)) in
  let split := lookup_then_claim proto_ipoe interloper new_registry wk [115; 49]%N in
  let site_first := component_claim proto_ipoe new_registry wk [115; 49]%N in
  let site_last := component_claim proto_ipoe (interloper new_registry) wk [115; 49]%N in
  snd split = [] /\ reg_get (fst split) wk = Some (mkOwner proto_ipoe [115; 49]%N wk) /\
  (* interloper first: the site must publish the PPPoE session *)
  snd site_last = [[112; 57]%N] /\
  (* site first: then the interloper's claim ends up owning the tuple *)
  reg_get (interloper (fst site_first)) wk = Some wpp.
Proof. vm_compute. repeat split; reflexivity. Qed.

(* the repaired pppoe site: every session the claim displaced is named, exactly once *)
Lemma component_claim_any_events self r k sid :
  snd (component_claim_any self r k sid) =
  match lookup r k with
  | Some prev => if same_id prev (mkOwner self sid k) then [] else [o_sid prev]
  | None => []
  end.
Proof.
  unfold component_claim_any.
  pose proof (reg_step_ret r (OClaim k (mkOwner self sid k))) as Hr.
  destruct (reg_step r (OClaim k (mkOwner self sid k))) as [r' res]. cbn [snd] in *. subst res.
  rewrite lookup_get. simpl. destruct (reg_get r k) as [prev|]; [|reflexivity].
  destruct (same_id prev (mkOwner self sid k)); reflexivity.
Qed.
Lemma component_claim_any_state self r k sid :
  fst (component_claim_any self r k sid) = fst (reg_step r (OClaim k (mkOwner self sid k))).
Proof. unfold component_claim_any. destruct (reg_step r (OClaim k (mkOwner self sid k))). reflexivity. Qed.
