From OV Require Import Common.Base C17.Model.
Lemma shard_for_lt k : (shard_for k < 16)%N.
Proof.
  unfold shard_for. change 15%N with (N.ones 4). rewrite N.land_ones. apply N.mod_lt. discriminate.
Qed.
