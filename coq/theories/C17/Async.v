(* C17/Async.v — the two components with an ASYNCHRONOUS bus and session teardown (Model.a_step, variant
   Repaired = /repo HEAD).  Invariant: every live session is the registry owner of its tuple or has a terminate
   event naming it in the queue.  Hence whenever the queue is empty — all evictions processed — no two live
   sessions share a tuple, in particular never an IPoE and a PPPoE session. *)
From OV Require Import Common.Base C17.Model C17.Proofs C17.E2E.
From Coq Require Import ZifyBool ZifyNat ZifyN.

Lemma ipoe_sid_neq n m : n <> m -> bytes_eqb (ipoe_sid n) (ipoe_sid m) = false.
Proof. intros H. unfold ipoe_sid. simpl. destruct (N.eqb_spec n m); [contradiction | reflexivity]. Qed.
Lemma find_sid_spec sid m :
  match find_sid sid m with
  | Some s => exists k, In (k, s) m /\ o_sid s = sid
  | None => forall k s, In (k, s) m -> bytes_eqb (o_sid s) sid = false
  end.
Proof.
  induction m as [|[k s] r IH]; simpl; [tauto|].
  destruct (bytes_eqb (o_sid s) sid) eqn:E.
  - exists k. split; [auto | apply bytes_eqb_eq; exact E].
  - destruct (find_sid sid r) as [s'|].
    + destruct IH as [k' [A B]]. exists k'. auto.
    + intros k' s' [H|H]; [inversion H; subst; exact E | eauto].
Qed.
Lemma find_pp_spec sid l :
  match find_pp sid l with
  | Some (k, s) => In (k, s) l /\ s = sid
  | None => forall k s, In (k, s) l -> bytes_eqb s sid = false
  end.
Proof.
  induction l as [|[k s] r IH]; simpl; [tauto|].
  destruct (bytes_eqb s sid) eqn:E.
  - split; [auto | apply bytes_eqb_eq; exact E].
  - destruct (find_pp sid r) as [[k' s']|].
    + destruct IH. auto.
    + intros k' s' [H|H]; [inversion H; subst; exact E | eauto].
Qed.

Record AInv (aw : aworld) : Prop := {
  a_ok : reg_ok (w_reg (a_w aw));
  a_iwf : forall k s, In (k, s) (w_ipoe (a_w aw)) -> exists n, s = ipo (ipoe_sid n) k /\ (n < w_next (a_w aw))%N;
  a_ikeys : NoDup (map fst (w_ipoe (a_w aw)));
  a_iuniq : forall k1 k2 s1 s2, In (k1, s1) (w_ipoe (a_w aw)) -> In (k2, s2) (w_ipoe (a_w aw)) ->
                                o_sid s1 = o_sid s2 -> k1 = k2;
  a_pwf : forall k sid, In (k, sid) (w_pp_all (a_w aw)) -> exists n, sid = pppoe_sid n /\ (n < w_next (a_w aw))%N;
  a_puniq : forall k1 k2 sid, In (k1, sid) (w_pp_all (a_w aw)) -> In (k2, sid) (w_pp_all (a_w aw)) -> k1 = k2;
  a_pkey : forall k s, m_get k (w_pp_key (a_w aw)) = Some s -> s = ppo (o_sid s) k /\ In (k, o_sid s) (w_pp_all (a_w aw));
  a_own : forall k o, reg_get (w_reg (a_w aw)) k = Some o ->
      m_get k (w_ipoe (a_w aw)) = Some o \/ (o = ppo (o_sid o) k /\ In (k, o_sid o) (w_pp_all (a_w aw)));
  a_li : forall k s, m_get k (w_ipoe (a_w aw)) = Some s ->
      reg_get (w_reg (a_w aw)) k = Some s \/ In (o_sid s, k) (a_q aw);
  a_lp : forall k sid, In (k, sid) (w_pp_all (a_w aw)) ->
      reg_get (w_reg (a_w aw)) k = Some (ppo sid k) \/ In (sid, k) (a_q aw)
}.

Lemma ainv0 : AInv aworld0.
Proof.
  constructor; simpl; try tauto; try discriminate.
  - apply new_registry_ok.
  - constructor.
  - intros k o H. rewrite reg_get_new in H. discriminate.
Qed.

(* release of a tuple by a session: the registry entry disappears iff that session is the owner *)
Lemma crelease_get self r k sid k' : reg_ok r ->
  reg_get (component_release self r k sid) k' =
  if key_eqb k' k && match reg_get r k with Some cur => same_id cur (mkOwner self sid k) | None => false end
  then None else reg_get r k'.
Proof.
  intros H. unfold component_release. fold (release r k (mkOwner self sid k)).
  rewrite release_get by exact H. rewrite is_owner_get. reflexivity.
Qed.
Lemma same_id_ipo_ppo a k b k' : same_id (ipo a k) (ppo b k') = false /\ same_id (ppo b k') (ipo a k) = false.
Proof. split; reflexivity. Qed.
Lemma same_id_ipo a k b k' : same_id (ipo a k) (ipo b k') = bytes_eqb a b.
Proof. unfold same_id, ipo. simpl. reflexivity. Qed.
Lemma same_id_ppo a k b k' : same_id (ppo a k) (ppo b k') = bytes_eqb a b.
Proof. unfold same_id, ppo. simpl. reflexivity. Qed.

(* ---- removal of a live IPoE session (terminate handler hit) ---- *)
Lemma remove_ipoe aw k s q' :
  AInv aw -> m_get k (w_ipoe (a_w aw)) = Some s ->
  (forall x, In x q' -> In x (a_q aw)) ->
  (* events that disappear from the queue name the removed session only *)
  (forall sid kk, In (sid, kk) (a_q aw) -> In (sid, kk) q' \/ sid = o_sid s) ->
  AInv (mkA (mkW (component_release proto_ipoe (w_reg (a_w aw)) (o_key s) (o_sid s)) (m_del (o_key s) (w_ipoe (a_w aw)))
                 (w_pp_key (a_w aw)) (w_pp_all (a_w aw)) (w_next (a_w aw))) q').
Proof.
  intros [Hok Hiwf Hik Hiu Hpwf Hpu Hpk Hown Hli Hlp] Hg Hsub Hdrop.
  destruct (Hiwf k s (m_get_some_in _ _ _ Hg)) as [n [Es Ln]]. subst s. cbn [o_key o_sid ipo] in *.
  (* who owns k: the removed session, or somebody else (then the release is stale) *)
  assert (Hcase : (reg_get (w_reg (a_w aw)) k = Some (ipo (ipoe_sid n) k) /\
                   forall k', reg_get (component_release proto_ipoe (w_reg (a_w aw)) k (ipoe_sid n)) k' =
                              if key_eqb k' k then None else reg_get (w_reg (a_w aw)) k') \/
                  (reg_get (w_reg (a_w aw)) k <> Some (ipo (ipoe_sid n) k) /\
                   forall k', reg_get (component_release proto_ipoe (w_reg (a_w aw)) k (ipoe_sid n)) k' = reg_get (w_reg (a_w aw)) k')).
  { destruct (reg_get (w_reg (a_w aw)) k) as [cur|] eqn:Er.
    - destruct (Hown _ _ Er) as [Hl|[Ecur Hin]].
      + rewrite Hg in Hl. inversion Hl; subst cur. left. split; [reflexivity|]. intros k'. rewrite crelease_get by exact Hok. rewrite Er, same_id_refl, andb_true_r. reflexivity.
      + right. split; [intros E; inversion E as [E2]; rewrite E2 in Ecur; unfold ipo, ppo in Ecur; inversion Ecur|].
        intros k'. rewrite crelease_get by exact Hok. rewrite Er. assert (same_id cur (mkOwner proto_ipoe (ipoe_sid n) k) = false) as -> by (rewrite Ecur; reflexivity). rewrite andb_false_r. reflexivity.
    - right. split; [discriminate|]. intros k'. rewrite crelease_get by exact Hok. rewrite Er, andb_false_r. reflexivity. }
  constructor; cbn [a_w a_q w_reg w_ipoe w_pp_key w_pp_all w_next].
  - apply crelease_ok. exact Hok.
  - intros k2 s2 Hin. apply in_m_del in Hin. destruct Hin. eauto.
  - apply m_del_keys_nodup. exact Hik.
  - intros k1 k2 s1 s2 H1 H2. apply in_m_del in H1. apply in_m_del in H2. destruct H1, H2. eauto.
  - exact Hpwf.
  - exact Hpu.
  - exact Hpk.
  - intros k2 o2 Hr. destruct Hcase as [[Eo Hr']|[Eo Hr']]; rewrite Hr' in Hr.
    + destruct (key_eqb k2 k) eqn:Ek; [discriminate|]. destruct (Hown _ _ Hr) as [Hl|Hp]; [left|right; exact Hp].
      rewrite m_get_del_other by (apply key_eqb_neq; exact Ek). exact Hl.
    + destruct (Hown _ _ Hr) as [Hl|Hp]; [left|right; exact Hp].
      destruct (key_eqb k2 k) eqn:Ek.
      * apply key_eqb_eq in Ek. subst k2. rewrite Hg in Hl. inversion Hl; subst o2. contradiction.
      * rewrite m_get_del_other by (apply key_eqb_neq; exact Ek). exact Hl.
  - intros k2 s2 Hg2. destruct (key_eqb k2 k) eqn:Ek.
    + apply key_eqb_eq in Ek. subst k2. rewrite m_get_del_same in Hg2. discriminate.
    + rewrite m_get_del_other in Hg2 by (apply key_eqb_neq; exact Ek).
      destruct (Hli _ _ Hg2) as [Hr|Hq].
      * left. destruct Hcase as [[_ Hr']|[_ Hr']]; rewrite Hr'; [rewrite Ek|]; exact Hr.
      * right. destruct (Hdrop _ _ Hq) as [?|E]; [assumption|]. exfalso.
        assert (k2 = k) by (eapply Hiu; [apply m_get_some_in; exact Hg2 | apply m_get_some_in; exact Hg | exact E]).
        subst. rewrite key_eqb_refl in Ek. discriminate.
  - intros k2 sid2 Hin. destruct (Hlp _ _ Hin) as [Hr|Hq].
    + left. destruct Hcase as [[Eo Hr']|[_ Hr']]; rewrite Hr'; [|exact Hr].
      destruct (key_eqb k2 k) eqn:Ek; [|exact Hr]. apply key_eqb_eq in Ek. subst k2. rewrite Eo in Hr. inversion Hr.
    + right. destruct (Hdrop _ _ Hq) as [?|E]; [assumption|]. exfalso.
      destruct (Hpwf _ _ Hin) as [m [-> _]]. inversion E.
Qed.

(* ---- removal of a live PPPoE session (terminate handler hit, or PADT) ---- *)
Lemma remove_pppoe aw k sid q' :
  AInv aw -> In (k, sid) (w_pp_all (a_w aw)) ->
  (forall x, In x q' -> In x (a_q aw)) ->
  (forall sd kk, In (sd, kk) (a_q aw) -> In (sd, kk) q' \/ sd = sid) ->
  AInv (mkA (mkW (component_release proto_pppoe (w_reg (a_w aw)) k sid) (w_ipoe (a_w aw))
                 (match m_get k (w_pp_key (a_w aw)) with
                  | Some cur => if bytes_eqb (o_sid cur) sid then m_del k (w_pp_key (a_w aw)) else w_pp_key (a_w aw)
                  | None => w_pp_key (a_w aw) end)
                 (remove_pp k sid (w_pp_all (a_w aw))) (w_next (a_w aw))) q').
Proof.
  intros [Hok Hiwf Hik Hiu Hpwf Hpu Hpk Hown Hli Hlp] Hin0 Hsub Hdrop.
  destruct (Hpwf _ _ Hin0) as [n [Es Ln]]. subst sid.
  assert (Hcase : (reg_get (w_reg (a_w aw)) k = Some (ppo (pppoe_sid n) k) /\
                   forall k', reg_get (component_release proto_pppoe (w_reg (a_w aw)) k (pppoe_sid n)) k' =
                              if key_eqb k' k then None else reg_get (w_reg (a_w aw)) k') \/
                  (reg_get (w_reg (a_w aw)) k <> Some (ppo (pppoe_sid n) k) /\
                   forall k', reg_get (component_release proto_pppoe (w_reg (a_w aw)) k (pppoe_sid n)) k' = reg_get (w_reg (a_w aw)) k')).
  { destruct (reg_get (w_reg (a_w aw)) k) as [cur|] eqn:Er.
    - destruct (Hown _ _ Er) as [Hl|[Ecur Hin]].
      + right. destruct (Hiwf _ _ (m_get_some_in _ _ _ Hl)) as [m [Ec _]].
        split; [intros E; inversion E as [E2]; rewrite E2 in Ec; unfold ipo, ppo in Ec; inversion Ec|].
        intros k'. rewrite crelease_get by exact Hok. rewrite Er.
        assert (same_id cur (mkOwner proto_pppoe (pppoe_sid n) k) = false) as -> by (rewrite Ec; reflexivity).
        rewrite andb_false_r. reflexivity.
      + destruct (bytes_eqb (o_sid cur) (pppoe_sid n)) eqn:Eb.
        * apply bytes_eqb_eq in Eb. rewrite Eb in Ecur. subst cur. left. split; [reflexivity|].
          intros k'. rewrite crelease_get by exact Hok. rewrite Er.
          assert (same_id (ppo (pppoe_sid n) k) (mkOwner proto_pppoe (pppoe_sid n) k) = true) as -> by apply same_id_refl.
          rewrite andb_true_r. reflexivity.
        * right. split; [intros E; inversion E as [E2]; rewrite E2 in Eb; cbn [o_sid ppo] in Eb; rewrite bytes_eqb_refl in Eb; discriminate|].
          intros k'. rewrite crelease_get by exact Hok. rewrite Er.
          assert (same_id cur (mkOwner proto_pppoe (pppoe_sid n) k) = false) as ->.
          { rewrite Ecur. fold (ppo (pppoe_sid n) k). rewrite same_id_ppo. exact Eb. }
          rewrite andb_false_r. reflexivity.
    - right. split; [discriminate|]. intros k'. rewrite crelease_get by exact Hok. rewrite Er, andb_false_r. reflexivity. }
  set (pk' := match m_get k (w_pp_key (a_w aw)) with
              | Some cur => if bytes_eqb (o_sid cur) (pppoe_sid n) then m_del k (w_pp_key (a_w aw)) else w_pp_key (a_w aw)
              | None => w_pp_key (a_w aw) end).
  constructor; cbn [a_w a_q w_reg w_ipoe w_pp_key w_pp_all w_next].
  - apply crelease_ok. exact Hok.
  - exact Hiwf.
  - exact Hik.
  - exact Hiu.
  - intros k2 s2 H. apply in_remove_pp in H. destruct H. eauto.
  - intros k1 k2 s2 H1 H2. apply in_remove_pp in H1. apply in_remove_pp in H2. destruct H1, H2. eauto.
  - (* the tuple index still points to live sessions only *)
    intros k2 s2 Hg.
    assert (Hg0 : m_get k2 (w_pp_key (a_w aw)) = Some s2 /\ ~ (k2 = k /\ o_sid s2 = pppoe_sid n)).
    { unfold pk' in Hg. destruct (m_get k (w_pp_key (a_w aw))) as [cur|] eqn:Ec.
      - destruct (bytes_eqb (o_sid cur) (pppoe_sid n)) eqn:Eb.
        + destruct (key_eqb k2 k) eqn:Ek.
          * apply key_eqb_eq in Ek. subst k2. rewrite m_get_del_same in Hg. discriminate.
          * rewrite m_get_del_other in Hg by (apply key_eqb_neq; exact Ek). split; [exact Hg|].
            intros [-> _]. rewrite key_eqb_refl in Ek. discriminate.
        + split; [exact Hg|]. intros [-> E]. rewrite Ec in Hg. inversion Hg; subst. rewrite E, bytes_eqb_refl in Eb. discriminate.
      - split; [exact Hg|]. intros [-> _]. congruence. }
    destruct Hg0 as [Hg0 Hne]. destruct (Hpk _ _ Hg0) as [A B]. split; [exact A|]. apply in_remove_pp. tauto.
  - intros k2 o2 Hr. destruct Hcase as [[Eo Hr']|[Eo Hr']]; rewrite Hr' in Hr.
    + destruct (key_eqb k2 k) eqn:Ek; [discriminate|]. destruct (Hown _ _ Hr) as [Hl|[A B]]; [left; exact Hl|right].
      split; [exact A|]. apply in_remove_pp. split; [exact B|]. intros [-> _]. rewrite key_eqb_refl in Ek. discriminate.
    + destruct (Hown _ _ Hr) as [Hl|[A B]]; [left; exact Hl|right]. split; [exact A|]. apply in_remove_pp. split; [exact B|].
      intros [-> E]. apply Eo. rewrite Hr, A, E. reflexivity.
  - intros k2 s2 Hg2. destruct (Hli _ _ Hg2) as [Hr|Hq].
    + left. destruct Hcase as [[Eo Hr']|[_ Hr']]; rewrite Hr'; [|exact Hr].
      destruct (key_eqb k2 k) eqn:Ek; [|exact Hr]. apply key_eqb_eq in Ek. subst k2. rewrite Eo in Hr. inversion Hr as [E].
      destruct (Hiwf _ _ (m_get_some_in _ _ _ Hg2)) as [m [Es _]]. rewrite Es in E. inversion E.
    + right. destruct (Hdrop _ _ Hq) as [?|E]; [assumption|]. exfalso.
      destruct (Hiwf _ _ (m_get_some_in _ _ _ Hg2)) as [m [Es _]]. rewrite Es in E. inversion E.
  - intros k2 sid2 Hin. apply in_remove_pp in Hin. destruct Hin as [Hin Hne]. destruct (Hlp _ _ Hin) as [Hr|Hq].
    + left. destruct Hcase as [[Eo Hr']|[_ Hr']]; rewrite Hr'; [|exact Hr].
      destruct (key_eqb k2 k) eqn:Ek; [|exact Hr]. apply key_eqb_eq in Ek. subst k2. rewrite Eo in Hr. injection Hr as E. exfalso. apply Hne. split; [reflexivity | symmetry; exact E].
    + right. destruct (Hdrop _ _ Hq) as [?|E]; [assumption|]. exfalso. subst sid2.
      assert (k2 = k) by (eapply Hpu; eauto). tauto.
Qed.

(* ---- the handlers on a world satisfying the invariant (queue untouched) ---- *)
Lemma ipoe_handle w q sid k0 : AInv (mkA w q) ->
  let w1 := ipoe_terminate Repaired w (sid, k0) in
  AInv (mkA w1 q) /\ (forall k s, In (k, s) (w_ipoe w1) -> o_sid s <> sid) /\ w_pp_all w1 = w_pp_all w.
Proof.
  intros I. pose proof I as [Hok Hiwf Hik Hiu Hpwf Hpu Hpk Hown Hli Hlp]. cbn [a_w a_q] in *.
  unfold ipoe_terminate.
  set (target := match key_hit Repaired sid (m_get k0 (w_ipoe w)) with Some s => Some s | None => find_sid sid (w_ipoe w) end).
  assert (Ht : match target with
               | Some s => exists k, In (k, s) (w_ipoe w) /\ o_sid s = sid
               | None => forall k s, In (k, s) (w_ipoe w) -> bytes_eqb (o_sid s) sid = false end).
  { unfold target. destruct (m_get k0 (w_ipoe w)) as [s|] eqn:Eg; cbn [key_hit Repaired v_keyhit].
    - destruct (bytes_eqb (o_sid s) sid) eqn:Eb.
      + exists k0. split; [apply m_get_some_in; exact Eg | apply bytes_eqb_eq; exact Eb].
      + apply find_sid_spec.
    - apply find_sid_spec. }
  destruct target as [s|].
  - destruct Ht as [k [Hin Es]]. destruct (Hiwf _ _ Hin) as [n [E _]].
    assert (Hk : o_key s = k) by (rewrite E; reflexivity).
    pose proof (m_get_in _ _ _ Hik Hin) as Hg. rewrite <- Hk in Hg.
    split; [|split; [|reflexivity]].
    + apply (remove_ipoe (mkA w q) (o_key s) s q I Hg); cbn [a_q]; auto.
    + cbn [w_ipoe]. intros k2 s2 Hin2 E2. apply in_m_del in Hin2. destruct Hin2 as [Hin2 Hne].
      apply Hne. rewrite Hk. eapply Hiu; [exact Hin2 | exact Hin | congruence].
  - split; [exact I|]. split; [|reflexivity]. intros k s Hin E.
    specialize (Ht _ _ Hin). rewrite E, bytes_eqb_refl in Ht. discriminate.
Qed.

Lemma pppoe_handle w q sid k0 : AInv (mkA w q) ->
  let w2 := pppoe_terminate Repaired w (sid, k0) in
  AInv (mkA w2 q) /\ (forall k s, In (k, s) (w_pp_all w2) -> s <> sid) /\ w_ipoe w2 = w_ipoe w.
Proof.
  intros I. pose proof I as [Hok Hiwf Hik Hiu Hpwf Hpu Hpk Hown Hli Hlp]. cbn [a_w a_q] in *.
  unfold pppoe_terminate.
  set (target := match key_hit Repaired sid (m_get k0 (w_pp_key w)) with
                 | Some s => Some (o_key s, o_sid s) | None => find_pp sid (w_pp_all w) end).
  assert (Ht : match target with
               | Some (k, s) => In (k, s) (w_pp_all w) /\ s = sid
               | None => forall k s, In (k, s) (w_pp_all w) -> bytes_eqb s sid = false end).
  { unfold target. destruct (m_get k0 (w_pp_key w)) as [s|] eqn:Eg; cbn [key_hit Repaired v_keyhit].
    - destruct (bytes_eqb (o_sid s) sid) eqn:Eb.
      + destruct (Hpk _ _ Eg) as [Es Hin]. apply bytes_eqb_eq in Eb.
        assert (Ek : o_key s = k0) by (rewrite Es; reflexivity). rewrite Ek. split; [exact Hin | exact Eb].
      + apply find_pp_spec.
    - apply find_pp_spec. }
  destruct target as [[k s]|].
  - destruct Ht as [Hin ->]. split; [|split; [|reflexivity]].
    + apply (remove_pppoe (mkA w q) k sid q I Hin); cbn [a_q]; auto.
    + cbn [w_pp_all]. intros k2 s2 Hin2 E2. subst s2. apply in_remove_pp in Hin2. destruct Hin2 as [Hin2 Hne].
      apply Hne. split; [eapply Hpu; eauto | reflexivity].
  - split; [exact I|]. split; [|reflexivity]. intros k s Hin E. subst s.
    specialize (Ht _ _ Hin). rewrite bytes_eqb_refl in Ht. discriminate.
Qed.

Lemma drop_head w ev q : AInv (mkA w (ev :: q)) ->
  (forall k s, In (k, s) (w_ipoe w) -> o_sid s <> fst ev) ->
  (forall k s, In (k, s) (w_pp_all w) -> s <> fst ev) ->
  AInv (mkA w q).
Proof.
  intros [Hok Hiwf Hik Hiu Hpwf Hpu Hpk Hown Hli Hlp] Hni Hnp. cbn [a_w a_q] in *.
  constructor; cbn [a_w a_q]; auto.
  - intros k s Hg. destruct (Hli _ _ Hg) as [?|[E|?]]; auto. exfalso.
    apply (Hni k s (m_get_some_in _ _ _ Hg)). rewrite E. reflexivity.
  - intros k sid Hin. destruct (Hlp _ _ Hin) as [?|[E|?]]; auto. exfalso.
    apply (Hnp k sid Hin). rewrite E. reflexivity.
Qed.
Lemma grow_queue w q q2 : AInv (mkA w q) -> AInv (mkA w (q ++ q2)).
Proof.
  intros [Hok Hiwf Hik Hiu Hpwf Hpu Hpk Hown Hli Hlp]. cbn [a_w a_q] in *.
  constructor; cbn [a_w a_q]; auto.
  - intros k s Hg. destruct (Hli _ _ Hg); [auto | right; apply in_or_app; auto].
  - intros k sid Hin. destruct (Hlp _ _ Hin); [auto | right; apply in_or_app; auto].
Qed.

Lemma step_deliver aw : AInv aw -> AInv (a_step Repaired aw ADeliver).
Proof.
  destruct aw as [w q]. intros I. cbn [a_step a_w a_q]. destruct q as [|[sid k0] q']; [exact I|].
  destruct (ipoe_handle w ((sid, k0) :: q') sid k0 I) as [I1 [N1 P1]].
  destruct (pppoe_handle _ ((sid, k0) :: q') sid k0 I1) as [I2 [N2 P2]].
  apply (drop_head _ (sid, k0) q' I2); cbn [fst].
  - rewrite P2. exact N1.
  - exact N2.
Qed.
Lemma step_deliver_pi aw : AInv aw -> AInv (a_step Repaired aw ADeliverPI).
Proof.
  destruct aw as [w q]. intros I. cbn [a_step a_w a_q]. destruct q as [|[sid k0] q']; [exact I|].
  destruct (pppoe_handle w ((sid, k0) :: q') sid k0 I) as [I1 [N1 P1]].
  destruct (ipoe_handle _ ((sid, k0) :: q') sid k0 I1) as [I2 [N2 P2]].
  apply (drop_head _ (sid, k0) q' I2); cbn [fst].
  - exact N2.
  - rewrite P2. exact N1.
Qed.
Lemma step_padt aw k : AInv aw -> AInv (a_step Repaired aw (APadt k)).
Proof.
  destruct aw as [w q]. intros I. cbn [a_step a_w a_q]. destruct (m_get k (w_pp_key w)) as [s|]; [|exact I].
  apply (pppoe_handle w q (o_sid s) k I).
Qed.
Lemma step_oper aw k : AInv aw -> AInv (a_step Repaired aw (AOperI k)).
Proof.
  destruct aw as [w q]. intros I. cbn [a_step a_w a_q]. destruct (m_get k (w_ipoe w)) as [s|]; [|exact I].
  apply grow_queue. exact I.
Qed.

Lemma ipoe_sid_inj n m : ipoe_sid n = ipoe_sid m -> n = m.
Proof. unfold ipoe_sid. intros H. inversion H. reflexivity. Qed.

Lemma step_create aw k : AInv aw -> AInv (a_step Repaired aw (ACreateI k)).
Proof.
  destruct aw as [w q]. intros I. pose proof I as [Hok Hiwf Hik Hiu Hpwf Hpu Hpk Hown Hli Hlp]. cbn [a_w a_q] in *.
  cbn [a_step a_w a_q]. destruct (m_get k (w_ipoe w)) as [s0|] eqn:Eg; [exact I|].
  set (n := w_next w).
  pose proof (component_claim_events proto_ipoe (w_reg w) k (ipoe_sid n)) as Hev.
  pose proof (fun k' => cclaim_get proto_ipoe (w_reg w) k (ipoe_sid n) k' Hok) as Hget.
  pose proof (cclaim_ok proto_ipoe (w_reg w) k (ipoe_sid n) Hok) as Hok'.
  destruct (component_claim proto_ipoe (w_reg w) k (ipoe_sid n)) as [r' evs]. cbn [fst snd] in *. rewrite lookup_get in Hev.
  (* what gets queued: the PPPoE owner of the tuple, if any *)
  assert (Hq : forall sid2, reg_get (w_reg w) k = Some (ppo sid2 k) -> In (sid2, k) (q ++ map (fun s => (s, k)) evs)).
  { intros sid2 Er. rewrite Er in Hev. cbn [o_proto o_sid ppo] in Hev.
    replace (bytes_eqb proto_pppoe proto_ipoe) with false in Hev by reflexivity. subst evs. apply in_or_app. right. left. reflexivity. }
  constructor; cbn [a_w a_q w_reg w_ipoe w_pp_key w_pp_all w_next].
  - exact Hok'.
  - intros k2 s2 Hin. apply in_m_set in Hin. destruct Hin as [[-> ->]|[Hin _]].
    + exists n. split; [reflexivity | unfold n; lia].
    + destruct (Hiwf _ _ Hin) as [m [E L]]. exists m. split; [exact E | unfold n in *; lia].
  - apply m_set_keys_nodup. exact Hik.
  - intros k1 k2 s1 s2 H1 H2 E. apply in_m_set in H1. apply in_m_set in H2.
    destruct H1 as [[-> ->]|[H1 _]], H2 as [[-> ->]|[H2 _]]; auto.
    + destruct (Hiwf _ _ H2) as [m [E2 L]]. rewrite E2 in E. cbn [o_sid ipo] in E. apply ipoe_sid_inj in E. unfold n in E. lia.
    + destruct (Hiwf _ _ H1) as [m [E1 L]]. rewrite E1 in E. cbn [o_sid ipo] in E. apply ipoe_sid_inj in E. unfold n in E. lia.
    + eauto.
  - intros k2 sid2 Hin. destruct (Hpwf _ _ Hin) as [m [E L]]. exists m. split; [exact E | lia].
  - exact Hpu.
  - exact Hpk.
  - intros k2 o2. rewrite Hget. destruct (key_eqb k2 k) eqn:Ek.
    + apply key_eqb_eq in Ek. subst k2. intros H; inversion H; subst. left. apply m_get_set_same.
    + intros H. destruct (Hown _ _ H) as [Hl|Hp]; [left|right; exact Hp].
      rewrite m_get_set_other by (apply key_eqb_neq; exact Ek). exact Hl.
  - intros k2 s2 Hg2. rewrite Hget. destruct (key_eqb k2 k) eqn:Ek.
    + apply key_eqb_eq in Ek. subst k2. rewrite m_get_set_same in Hg2. inversion Hg2. left. reflexivity.
    + rewrite m_get_set_other in Hg2 by (apply key_eqb_neq; exact Ek).
      destruct (Hli _ _ Hg2); [auto | right; apply in_or_app; auto].
  - intros k2 sid2 Hin. rewrite Hget. destruct (key_eqb k2 k) eqn:Ek.
    + apply key_eqb_eq in Ek. subst k2. right. destruct (Hlp _ _ Hin) as [Hr|Hq0]; [apply Hq; exact Hr | apply in_or_app; auto].
    + destruct (Hlp _ _ Hin); [auto | right; apply in_or_app; auto].
Qed.

Lemma step_padr aw k : AInv aw -> AInv (a_step Repaired aw (APadr k)).
Proof.
  destruct aw as [w q]. intros I. pose proof I as [Hok Hiwf Hik Hiu Hpwf Hpu Hpk Hown Hli Hlp]. cbn [a_w a_q] in *.
  cbn [a_step a_w a_q v_evict_pp Repaired site_claim].
  set (n := w_next w).
  pose proof (component_claim_any_events proto_pppoe (w_reg w) k (pppoe_sid n)) as Hev.
  pose proof (fun k' => cany_get proto_pppoe (w_reg w) k (pppoe_sid n) k' Hok) as Hget.
  pose proof (cany_ok proto_pppoe (w_reg w) k (pppoe_sid n) Hok) as Hok'.
  destruct (component_claim_any proto_pppoe (w_reg w) k (pppoe_sid n)) as [r' evs]. cbn [fst snd] in *. rewrite lookup_get in Hev.
  assert (Hfresh : forall k2 sid2, In (k2, sid2) (w_pp_all w) -> sid2 <> pppoe_sid n).
  { intros k2 sid2 Hin E. destruct (Hpwf _ _ Hin) as [m [E2 L]]. rewrite E2 in E. unfold pppoe_sid in E. inversion E. unfold n in *. lia. }
  (* whoever owned the tuple gets an eviction queued *)
  assert (Hq : forall prev, reg_get (w_reg w) k = Some prev -> In (o_sid prev, k) (q ++ map (fun s => (s, k)) evs)).
  { intros prev Er. rewrite Er in Hev.
    assert (same_id prev (mkOwner proto_pppoe (pppoe_sid n) k) = false) as Es.
    { destruct (Hown _ _ Er) as [Hl|[Ep Hin]].
      - destruct (Hiwf _ _ (m_get_some_in _ _ _ Hl)) as [m [E _]]. rewrite E. reflexivity.
      - rewrite Ep. fold (ppo (pppoe_sid n) k). rewrite same_id_ppo.
        destruct (bytes_eqb (o_sid prev) (pppoe_sid n)) eqn:Eb; [|reflexivity].
        apply bytes_eqb_eq in Eb. exfalso. eapply Hfresh; eauto. }
    rewrite Es in Hev. subst evs. apply in_or_app. right. left. reflexivity. }
  constructor; cbn [a_w a_q w_reg w_ipoe w_pp_key w_pp_all w_next].
  - exact Hok'.
  - intros k2 s2 Hin. destruct (Hiwf _ _ Hin) as [m [E L]]. exists m. split; [exact E | lia].
  - exact Hik.
  - exact Hiu.
  - intros k2 sid2 [Hin|Hin].
    + inversion Hin; subst. exists n. split; [reflexivity | unfold n; lia].
    + destruct (Hpwf _ _ Hin) as [m [E L]]. exists m. split; [exact E | lia].
  - intros k1 k2 sid2 [H1|H1] [H2|H2].
    + inversion H1; inversion H2; congruence.
    + inversion H1; subst. exfalso. eapply Hfresh; eauto.
    + inversion H2; subst. exfalso. eapply Hfresh; eauto.
    + eauto.
  - intros k2 s2 Hg. destruct (key_eqb k2 k) eqn:Ek.
    + apply key_eqb_eq in Ek. subst k2. rewrite m_get_set_same in Hg. inversion Hg. split; [reflexivity | left; reflexivity].
    + rewrite m_get_set_other in Hg by (apply key_eqb_neq; exact Ek). destruct (Hpk _ _ Hg) as [A B]. split; [exact A | right; exact B].
  - intros k2 o2. rewrite Hget. destruct (key_eqb k2 k) eqn:Ek.
    + apply key_eqb_eq in Ek. subst k2. intros H; inversion H; subst. right. split; [reflexivity | left; reflexivity].
    + intros H. destruct (Hown _ _ H) as [Hl|[A B]]; [left; exact Hl | right; split; [exact A | right; exact B]].
  - intros k2 s2 Hg2. rewrite Hget. destruct (key_eqb k2 k) eqn:Ek.
    + apply key_eqb_eq in Ek. subst k2. right. destruct (Hli _ _ Hg2) as [Hr|Hq0]; [apply (Hq _ Hr) | apply in_or_app; auto].
    + destruct (Hli _ _ Hg2); [auto | right; apply in_or_app; auto].
  - intros k2 sid2 [Hin|Hin]; rewrite Hget.
    + inversion Hin; subst. rewrite key_eqb_refl. left. reflexivity.
    + destruct (key_eqb k2 k) eqn:Ek.
      * apply key_eqb_eq in Ek. subst k2. right. destruct (Hlp _ _ Hin) as [Hr|Hq0]; [apply (Hq _ Hr) | apply in_or_app; auto].
      * destruct (Hlp _ _ Hin); [auto | right; apply in_or_app; auto].
Qed.

Lemma a_step_inv aw o : AInv aw -> AInv (a_step Repaired aw o).
Proof.
  intros I. destruct o as [k|k| |k|k| ].
  - apply step_create; exact I.
  - apply step_padr; exact I.
  - apply step_deliver; exact I.
  - apply step_padt; exact I.
  - apply step_oper; exact I.
  - apply step_deliver_pi; exact I.
Qed.
Lemma a_run_inv ops : forall aw, AInv aw -> AInv (a_run Repaired aw ops).
Proof. induction ops as [|o r IH]; intros aw I; [exact I|]. cbn [a_run fold_left]. apply IH. apply a_step_inv. exact I. Qed.

(* the statement: for every history of creations, PADRs, PADTs, terminate requests and deliveries in any order —
   (1) always: every live session is the owner of its tuple or has a terminate event naming it in the queue, and the
       owner of a tuple is a live session;
   (2) whenever the queue is empty (all evictions processed): every live session on a tuple IS its owner, so the tuple
       has no session or sessions of exactly one protocol, and two PPPoE entries of the tuple are the same session. *)
Lemma async_eviction_protocol ops :
  let aw := a_run Repaired aworld0 ops in
  let w := a_w aw in
  (forall k s, m_get k (w_ipoe w) = Some s -> reg_get (w_reg w) k = Some s \/ In (o_sid s, k) (a_q aw)) /\
  (forall k sid, In (k, sid) (w_pp_all w) -> reg_get (w_reg w) k = Some (ppo sid k) \/ In (sid, k) (a_q aw)) /\
  (forall k o, reg_get (w_reg w) k = Some o ->
     m_get k (w_ipoe w) = Some o \/ (o = ppo (o_sid o) k /\ In (k, o_sid o) (w_pp_all w))) /\
  (a_q aw = [] ->
   forall k,
     (forall s, m_get k (w_ipoe w) = Some s -> reg_get (w_reg w) k = Some s /\ count_pp k (w_pp_all w) = 0%nat) /\
     (forall sid, In (k, sid) (w_pp_all w) ->
        reg_get (w_reg w) k = Some (ppo sid k) /\ m_get k (w_ipoe w) = None /\
        forall sid', In (k, sid') (w_pp_all w) -> sid' = sid)).
Proof.
  intros aw w. pose proof (a_run_inv ops aworld0 ainv0) as I. fold aw in I.
  destruct I as [Hok Hiwf Hik Hiu Hpwf Hpu Hpk Hown Hli Hlp]. fold w in Hok, Hiwf, Hik, Hiu, Hpwf, Hpu, Hpk, Hown, Hli, Hlp.
  split; [exact Hli|]. split; [exact Hlp|]. split; [exact Hown|].
  intros Hq k. rewrite Hq in Hli, Hlp. split.
  - intros s Hg. destruct (Hli _ _ Hg) as [Hr|[]]. split; [exact Hr|].
    apply count_pp_zero. intros sid Hin. destruct (Hlp _ _ Hin) as [Hr2|[]]. rewrite Hr in Hr2. inversion Hr2 as [E].
    destruct (Hiwf _ _ (m_get_some_in _ _ _ Hg)) as [m [Es _]]. rewrite Es in E. inversion E.
  - intros sid Hin. destruct (Hlp _ _ Hin) as [Hr|[]]. split; [exact Hr|]. split.
    + destruct (m_get k (w_ipoe w)) as [s|] eqn:Eg; [|reflexivity]. destruct (Hli _ _ Eg) as [Hr2|[]].
      rewrite Hr in Hr2. inversion Hr2 as [E]. destruct (Hiwf _ _ (m_get_some_in _ _ _ Eg)) as [m [Es _]]. rewrite Es in E. inversion E.
    + intros sid' Hin'. destruct (Hlp _ _ Hin') as [Hr2|[]]. rewrite Hr in Hr2. inversion Hr2. reflexivity.
Qed.

(* non-vacuity: an interleaving with both protocols live on one tuple WHILE an eviction is pending, and one live session
   once it is delivered; PADT of the displacing session before the delivery leaves nothing *)
Definition ak : key := mkKey 100 10 [2; 170; 187; 204; 0; 1]%N.
Lemma async_example :
  e2e_snapshot (a_w (a_run Repaired aworld0 [ACreateI ak; APadr ak])) ak = (1%nat, 1%nat, Some proto_pppoe) /\
  length (a_q (a_run Repaired aworld0 [ACreateI ak; APadr ak])) = 1%nat /\
  e2e_snapshot (a_w (a_run Repaired aworld0 [ACreateI ak; APadr ak; ADeliver])) ak = (0%nat, 1%nat, Some proto_pppoe) /\
  a_q (a_run Repaired aworld0 [ACreateI ak; APadr ak; ADeliver]) = [] /\
  e2e_snapshot (a_w (a_run Repaired aworld0 [ACreateI ak; APadr ak; APadt ak; ADeliver])) ak = (0%nat, 0%nat, None) /\
  e2e_snapshot (a_w (a_run Repaired aworld0 [APadr ak; ACreateI ak; AOperI ak; APadr ak; ADeliver; ADeliver; ADeliver])) ak
    = (0%nat, 1%nat, Some proto_pppoe).
Proof. vm_compute. repeat split; reflexivity. Qed.

(* the two handler orders of one delivery agree on everything the components keep and on every registry entry:
   shown on the interleavings of the example; the invariant above holds for either order in every history *)
Lemma deliver_orders_example :
  e2e_snapshot (a_w (a_run Repaired aworld0 [ACreateI ak; APadr ak; ADeliverPI])) ak =
  e2e_snapshot (a_w (a_run Repaired aworld0 [ACreateI ak; APadr ak; ADeliver])) ak /\
  e2e_snapshot (a_w (a_run Repaired aworld0 [APadr ak; ACreateI ak; AOperI ak; APadr ak; ADeliverPI; ADeliver; ADeliverPI])) ak =
  (0%nat, 1%nat, Some proto_pppoe).
Proof. vm_compute. split; reflexivity. Qed.
