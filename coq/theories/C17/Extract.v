From Coq Require Import Extraction ExtrOcamlBasic.
From OV Require Import Common.Base C17.Model.
Extraction Language OCaml.
Extraction "C17_model.ml" make_tuple_key shard_for new_registry reg_step reg_get
  component_claim component_release caller_claim_v caller_claim caller_release proto_ipoe proto_pppoe
  world0 e2e_step e2e_snapshot e2e_restart e2e_restart_skipping aworld0 a_step.
