(* C17/Sharding.v — the choice of shard function (which hash, how many shards) is free.
   For EVERY function [sf : key -> nat] from tuples to lock identifiers the table whose cells are
   association lists, with each method body (Model.shard_step) run under the lock [sf (tuple)], is
   - sequentially equal to the flat specification (one partial map), and
   - linearizable w.r.t. that flat specification under every interleaving (Atomic.v semantics).
   /repo's shardFor (Model.shard_idx, 16 shards) is one instance; a different hash or another number
   of shards is another.  The correspondence check therefore accepts any shard observation that is a
   function of the tuple. *)
From OV Require Import Common.Base C17.Model C17.Proofs C17.Atomic.

Section AnySharding.
  Variable sf : key -> nat.

  Definition g_lock (o : op) : nat := sf (op_key o).
  Definition g_store := nat -> shard.
  Definition g_empty : g_store := fun _ => [].
  Definition g_abs (s : g_store) : spec := fun k => m_get k (s (sf k)).
  Definition g_step := gstep Nat.eq_dec g_lock shard_step.

  Definition agrees (s : g_store) (f : spec) : Prop := forall k, g_abs s k = f k.

  Lemma spec_step_ret_local f f' o : f (op_key o) = f' (op_key o) -> snd (spec_step f o) = snd (spec_step f' o).
  Proof. destruct o as [k ow|k ow|k ow|k]; simpl; intros H; rewrite ?H; reflexivity. Qed.

  Lemma g_step_spec s f o : agrees s f ->
    snd (g_step s o) = snd (spec_step f o) /\ agrees (fst (g_step s o)) (fst (spec_step f o)).
  Proof.
    intros H. unfold g_step, gstep, g_lock. cbn [fst snd].
    set (i := sf (op_key o)).
    assert (Hop : shard_abs (s i) (op_key o) = f (op_key o)) by (unfold shard_abs, i; apply (H (op_key o))).
    split.
    - rewrite shard_step_ret. apply spec_step_ret_local. exact Hop.
    - intros k. unfold g_abs, upd. destruct (Nat.eq_dec (sf k) i) as [E|N].
      + fold (shard_abs (fst (shard_step (s i) o)) k). rewrite shard_step_abs.
        apply spec_step_local; [exact Hop|]. unfold shard_abs. rewrite <- E. apply (H k).
      + rewrite spec_step_frame; [apply (H k)|]. intros ->. apply N. reflexivity.
  Qed.

  (* sequential: the sharded table and the flat map give the same results, whatever the shard function *)
  Fixpoint g_run (s : g_store) (ops : list op) : list ret :=
    match ops with [] => [] | o :: r => snd (g_step s o) :: g_run (fst (g_step s o)) r end.
  Lemma g_run_spec ops : forall s f, agrees s f -> g_run s ops = snd (spec_run f ops).
  Proof.
    induction ops as [|o r IH]; intros s f H; [reflexivity|].
    rewrite spec_run_cons. cbn [g_run snd]. destruct (g_step_spec s f o H) as [A B]. rewrite A, (IH _ _ B). reflexivity.
  Qed.
  Lemma agrees_empty : agrees g_empty spec_empty.
  Proof. intros k. reflexivity. Qed.

  (* concurrent: linearizable w.r.t. the FLAT specification *)
  Fixpoint flat_legal (f : spec) (lin : list (entry op ret)) : Prop :=
    match lin with
    | [] => True
    | e :: r => snd (spec_step f (e_op e)) = e_ret e /\ flat_legal (fst (spec_step f (e_op e))) r
    end.
  Lemma legal_flat lin : forall s f, agrees s f -> legal Nat.eq_dec g_lock shard_step s lin -> flat_legal f lin.
  Proof.
    induction lin as [|e r IH]; intros s f H; cbn [legal flat_legal]; [auto|].
    destruct (g_step_spec s f (e_op e) H) as [A B]. fold (g_step s (e_op e)). intros [H1 H2].
    split; [congruence | eapply IH; eauto].
  Qed.

  Lemma any_sharding_linearizable progs c :
    reach Nat.eq_dec g_lock op_is_read shard_step g_empty progs c -> quiescent c ->
    exists lin : list (entry op ret),
      (forall t, proj t (c_hist c) = proj t (expand lin)) /\
      flat_legal spec_empty lin /\ NoDup (ids lin) /\
      (forall a r b o, before (ERes a r) (EInv b o) (c_hist c) -> before a b (ids lin)).
  Proof.
    intros R Q.
    destruct (@atomic_ops_linearizable _ _ _ _ Nat.eq_dec g_lock op_is_read shard_step shard_step_read_pure _ _ _ R Q)
      as [lin [A [B [C D]]]].
    exists lin. repeat split; auto. eapply legal_flat; [apply agrees_empty | exact B].
  Qed.
End AnySharding.

(* /repo's shardFor is one admissible choice: the model's registry is the generic table at sf = shard_idx *)
Lemma head_policy_is_an_instance r o :
  reg_ok r ->
  snd (reg_step r o) = snd (g_step shard_idx (fun i => nth i r []) o).
Proof. intros _. reflexivity. Qed.
